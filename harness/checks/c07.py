"""C07 - Decisions do not depend on the storage backend."""
import sys

from .. import gen, specs, guardlib, storelib
from ..check import Stream, run_check
from ..core import s_bool, s_exc

SPECIAL_VALUES = ['a%', 'a_c', '%', '_', "a'b", 'a"b', 'a\\b', 'a+b', 'a(', 'a.b', '[a]', 'get', 'GET', 'Get',
                  '<get>', 'a<b>', '^a$', 'a|b', 'a*']
GRID_EXTRA = ['a\\', '\\', 'C:\\d', 'a\\%b', 'a\\_b', '%a', '_a', 'a\\\\b', "'", 'a b', 'é']


def decide_over(config, sc):
    """Guard decision over one configuration + the uids the storage returned as candidates"""
    from vakt.guard import Guard
    h = storelib.make_config(config)
    try:
        pols = [specs.mk_policy(p) for p in sc['policies']]
        try:
            storelib.load_policies(h, pols, via_update=bool(sc.get('via_update')))
        except Exception as e:  # noqa
            return 'SKIP store rejected a policy: %s' % type(e).__name__, None
        ck = None if sc['checker'] == 'CNone' else specs.mk_checker(sc['checker'])
        inq = specs.mk_inquiry(sc['inquiry'])
        try:
            cands = sorted(str(p.uid) for p in h.storage.find_for_inquiry(inq, ck))
        except Exception as e:  # noqa
            cands = 'raised ' + type(e).__name__
        g = Guard(h.storage, ck if ck is not None else specs.mk_checker('CExact'))
        try:
            r = g.is_allowed(inq)
            ans = s_bool(r) if (r is True or r is False) else repr(r)
        except BaseException as e:  # noqa
            ans = s_exc(e)
        return ans, cands
    finally:
        h.close()


def string_uids(sc):
    sc = dict(sc)
    sc['policies'] = [dict(p, uid='p%d' % i) for i, p in enumerate(sc['policies'])]
    return sc


class BackendDecisionStream(Stream):
    name = 'decision_per_backend'
    imports = guardlib.GUARD_IMPORTS
    case_type = 'gcase'
    run_fn = 'run_decide'
    rule = ('string- and rule-based policy sets and inquiries (values containing LIKE wildcards, quotes, backslashes, '
            'regex metacharacters, delimiters, mixed case; delimiter-wrapped and multi-segment elements) decided by a '
            'Guard over each configuration: Memory, SQL on SQLite, SQLite with a REGEXP function as "regex-capable '
            'dialect", Redis (client double) with both serializers, Mongo (client double) at 4.0 and 4.2, the '
            'enfolding cache over SQLite / Mongo, the observable wrapper over Memory / SQLite; four checkers. '
            'The model answers with the in-memory decision; the oracle additionally requires that the candidates a '
            'storage returns contain every stored policy the checker matches. non-trivial = some stored policy '
            'matches and the storage returned a strict subset of the store')

    def corpus(self):
        def pol(uid, eff, act):
            return {'uid': uid, 'effect': eff, 'subjects': [['s', 'Max']], 'resources': [['s', 'r']],
                    'actions': [['s', act]], 'context': [], 'description': None, 'tags': ['<', '>']}
        inq = {'resource': 'r', 'action': 'a', 'subject': 'Max', 'context': None}
        base = {'checker': 'CExact', 'policies': [pol('p0', 'allow', 'a'), pol('p1', 'deny', '<a>')], 'inquiry': inq,
                'rxtable': [['a', ['chr', 97]]]}
        inq2 = dict(inq, action='a+b')
        fz = {'checker': 'CFuzzy', 'policies': [pol('p0', 'allow', 'a+b aab'), pol('p1', 'deny', 'xa+by')],
              'inquiry': inq2, 'rxtable': []}
        # a store larger than any paging window: the enfolding cache is populated by pages of 1000
        # (the one policy that turns the answer sits on a window edge: the last of the first page)
        def big(edge):
            return {'checker': 'CExact', 'inquiry': inq, 'rxtable': [],
                    'policies': [pol('p%04d' % i, 'deny' if i == edge else 'allow', 'a' if i in (0, edge) else 'zz')
                                 for i in range(1040)]}
        return [dict(big(999), config='enfold_sqlite'), dict(big(999), config='enfold_mongo42'),
                dict(base, config='sqlite'), dict(base, config='mongo42'), dict(base, config='memory'),
                dict(fz, config='mongo42'), dict(fz, config='sqlite')]

    def grid(self):
        """every special value x string checker x storage family: one allow policy holding the value (plain, embedded,
        delimiter-wrapped), asked with exactly that value"""
        def pol(uid, eff, field, e):
            d = {'uid': uid, 'effect': eff, 'subjects': [['s', 'Max']], 'resources': [['s', 'r']],
                 'actions': [['s', 'a']], 'context': [], 'description': None, 'tags': ['<', '>']}
            d[field] = [['s', e]]
            return d
        k = 0
        for v in SPECIAL_VALUES + GRID_EXTRA:
            for ck in ('CExact', 'CFuzzy', 'CRegex'):
                for config in ('sqlite', 'sqlite_regexp', 'mongo42', 'redis_json', 'enfold_sqlite'):
                    field, name = [('subjects', 'subject'), ('resources', 'resource'), ('actions', 'action')][k % 3]
                    k += 1
                    e = 'x' + v + 'y' if ck == 'CFuzzy' else v
                    if '<' in e or '>' in e:
                        if not (e.count('<') == e.count('>') == 1 and e.index('<') < e.index('>')):
                            continue
                        inner = e[e.index('<') + 1:e.index('>')]
                        if any(c in inner for c in '()[]{}?*+|^$\\.'):
                            continue
                        rxt = [[inner, gen.rx_of_literal(inner)]]
                    else:
                        rxt = []
                    inq = {'resource': 'r', 'action': 'a', 'subject': 'Max', 'context': None}
                    inq[name] = v
                    yield {'checker': ck, 'policies': [pol('p0', 'allow', field, e), pol('p1', 'allow', field, 'zz')],
                           'inquiry': inq, 'rxtable': rxt, 'config': config}

    def generate(self, rng, tier):
        for c in self.grid():
            yield c
        n = 1300 if tier == 'quick' else 12000
        for i in range(n):
            config = storelib.CONFIGS[i % len(storelib.CONFIGS)]
            ck = specs.CHECKERS[(i // len(storelib.CONFIGS)) % 4]
            sc = gen.scenario(rng, ck, n_policies=rng.choice([1, 2, 3, 4]), illtyped=0, raising=False,
                              unbalanced=False, easy=rng.random() < 0.6)
            sc = string_uids(sc)
            if ck != 'CRules' and rng.random() < 0.35:
                # values with characters that are special for LIKE / regex / quoting, planted in an element too
                v = rng.choice(SPECIAL_VALUES)
                f, name = rng.choice([('subjects', 'subject'), ('resources', 'resource'), ('actions', 'action')])
                sc['inquiry'][name] = v
                if sc['policies'] and rng.random() < 0.8:
                    k = rng.randrange(len(sc['policies']))
                    p = dict(sc['policies'][k])
                    if any(e[0] != 's' for ff in ('subjects', 'resources', 'actions') for e in p[ff]):
                        continue
                    e = rng.choice([v, '<' + v + '>', 'x' + v + 'y', v.upper(), v + v])
                    if (e.count('<') != e.count('>')) or ('>' in e and '<' in e and e.index('>') < e.index('<')):
                        e = v
                    p[f] = p[f] + [['s', e]]
                    if '<' in e and '>' in e:
                        sc['rxtable'] = sc['rxtable'] + [[e[e.index('<') + 1:e.rindex('>')], None]]
                    sc['policies'] = sc['policies'][:k] + [p] + sc['policies'][k + 1:]
            sc['rxtable'] = [t for t in sc['rxtable'] if t[1] is not None] + \
                            [[t[0], gen.rx_of_literal(t[0])] for t in sc['rxtable'] if t[1] is None and
                             not any(c in t[0] for c in '()[]{}?*+|^$\\.')]
            sc['config'] = config
            if rng.random() < 0.2 and len({str(p['uid']) for p in sc['policies']}) == len(sc['policies']):
                # the stored policies got there by update(): each uid held a policy of the other kind before
                sc['via_update'] = True
            yield sc

    def emit(self, c):
        return guardlib.e_gcase(c)

    def impl(self, c):
        return decide_over(c['config'], c)[0]

    def oracle(self, c, obs):
        if obs.startswith('SKIP'):
            return None
        mem, _ = decide_over('memory', c)
        ans, cands = decide_over(c['config'], c)
        mv, pols = guardlib.match_vector(c)
        matching = sorted(str(p.uid) for p, m in zip(pols, mv) if m == 'T')
        clean = all(m in ('T', 'F') for m in mv)
        if clean and isinstance(cands, list):
            missing = [u for u in matching if u not in cands]
            if missing:
                return ('%s returned candidates %s but the checker matches %s (decision %s, in-memory %s)'
                        % (c['config'], cands, matching, ans, mem))
        if clean and isinstance(cands, str) and matching:
            return '%s: find_for_inquiry %s although %s match (decision %s, in-memory %s)' % (
                c['config'], cands, matching, ans, mem)
        if clean and ans != mem:
            return 'decision over %s is %s, over the in-memory store %s' % (c['config'], ans, mem)
        return None

    def nontrivial(self, c, obs):
        if obs.startswith('SKIP'):
            return False
        mv, pols = guardlib.match_vector(c)
        _, cands = decide_over(c['config'], c)
        return 'T' in mv and isinstance(cands, list) and len(cands) < len(pols)

    def classify(self, c, io, mo):
        """known findings in the Mongo query builders (each identified by what the failing case contains)"""
        base = c['config'].replace('enfold_', '').replace('observable_', '')
        if not base.startswith('mongo'):
            return None
        # Inquiry.__init__ turns a falsy element (None, False, 0, ...) into '' - that is the value the query carries
        v = [specs.py(c['inquiry'][k]) or '' for k in ('action', 'subject', 'resource')]
        strs = [x for x in v if isinstance(x, str)]
        elements = [e[1] for p in c['policies'] for f in ('actions', 'subjects', 'resources') for e in p[f]
                    if e[0] == 's']
        meta = '.^$*+?{}[]\\|()'
        if c['checker'] == 'CExact':
            if any(e == '<' + x + '>' for e in elements for x in strs):
                return 'mongo-exact-wrapped'
        if c['checker'] == 'CFuzzy':
            if any(ch in x for x in strs for ch in meta):
                return 'mongo-fuzzy-unescaped'
        if c['checker'] == 'CRegex' and base == 'mongo42':
            if any(x.startswith('$') for x in strs):
                return 'mongo-regex-dollar-value'
            if any(('<' not in e or '>' not in e) and any(ch in e for ch in meta) for e in elements):
                return 'mongo-regex-raw-literal'
        return None

    def shrink(self, c):
        ps = c['policies']
        if len(ps) > 40:
            return          # the big-store case is what it is (each candidate would reload a thousand policies)
        for i in range(len(ps)):
            if len(ps) > 1:
                yield dict(c, policies=ps[:i] + ps[i + 1:])

    def describe(self, c):
        return ('import json; from harness.checks.c07 import decide_over; c = json.loads(%r); '
                'print(decide_over(c["config"], c), decide_over("memory", c))' % __import__('json').dumps(c))


TRUSTED = [
    'Coq 8.16.1 kernel + vm_compute (no native_compute)',
    'Model/Guard.v decide over the whole store (the in-memory semantics); Model/Prefilter.v (LIKE, exact variants, '
    'type filters) for the soundness theorems; tied by the decision_per_backend stream',
    'SQLite is real; "regex-capable dialect" = SQLite + a REGEXP function backed by Python re.search with the '
    'storage told it speaks mysql; Redis and Mongo are client doubles implementing the documented semantics of '
    '$eq / $regex / $elemMatch / $expr / $regexMatch',
]
ASSUME = ['MySQL/Postgres/Oracle regex engines and collations, real MongoDB query semantics and real Redis cannot be '
          'exhibited here (C07 partial)',
          'policies read back from SQL are plain Policy objects (default tags); custom tag pairs are not preserved '
          'by that backend']


def main(argv):
    return run_check('C07', [BackendDecisionStream()], argv, trusted_base=TRUSTED, assumptions=ASSUME,
                     translated=('sql', 'sqlmodel', 'storage_abc', 'enfold', 'redis', 'mongo', 'memory', 'observable', 'subject', 'guard', 'checker', 'parser', 'pin_sql', 'pin_mongo', 'pin_redis', 'pin_rules', 'pin_util'))


if __name__ == '__main__':
    sys.exit(main(sys.argv[1:]))
