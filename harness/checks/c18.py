"""C18 - Migrations run in order, gated by the recorded version, and resume after failure."""
import itertools
import sys

from .. import core
from ..check import Stream, run_check
from ..core import e_list, e_Z, e_nat, e_option


class StepFault(Exception):
    pass


class Ctl:
    def __init__(self):
        self.k = 0
        self.fault = None
        self.events = []

    def begin(self, fault):
        self.k = 0
        self.fault = fault
        self.events = []

    def step(self, kind, order, version, inside=False):
        k = self.k
        self.k += 1
        if self.fault is not None and self.fault == k:
            self.events.append('fail%s%d@%d' % (kind, order, version))
            if inside:
                # the step starts and is interrupted part-way: after its first DDL statement went through
                self.armed = True
                return
            raise StepFault('injected')
        self.events.append('%s%d@%d' % (kind, order, version))

    armed = False


def recording_set(orders, version):
    from vakt.storage.migration import Migration, MigrationSet
    ctl = Ctl()

    class RecMigration(Migration):
        def __init__(self, order, mset):
            self._order = order
            self.mset = mset

        @property
        def order(self):
            return self._order

        def up(self):
            ctl.step('up', self._order, self.mset.version)

        def down(self):
            ctl.step('down', self._order, self.mset.version)

    class RecSet(MigrationSet):
        def __init__(self):
            self.version = version

        def migrations(self):
            return [RecMigration(o, self) for o in orders]

        def save_applied_number(self, number):
            self.version = number

        def last_applied(self):
            return self.version
    return RecSet(), ctl


def e_request(r):
    kind, number, fault = r
    return '(%s %s, %s)' % ('RUp' if kind == 'up' else 'RDown', e_option(number, e_Z, 'Z'),
                            e_option(fault, e_nat, 'nat'))


def gen_history(rng, orders, maxlen):
    h = []
    for _ in range(rng.randint(1, maxlen)):
        kind = rng.choice(['up', 'down'])
        number = None if rng.random() < 0.55 else rng.choice(list(orders) + [0, max(orders) + 1])
        fault = None if rng.random() < 0.6 else rng.randint(0, len(orders))
        h.append([kind, number, fault])
    return h


class RecordingStream(Stream):
    name = 'recording_migration_set'
    imports = 'From Vakt Require Import Model.Migration Harness.RunC18.'
    case_type = 'mcase'
    run_fn = 'run_mig'
    rule = ('migration sets of 1-4 migrations (orders from 1..5, gaps and duplicates included) declared in every '
            'order, request histories (<= 6 quick / 8 thorough) over {up, down, up(n), down(n)} with an exception '
            'injected in any step of any request; a Migrator drives a recording MigrationSet; compared after every '
            'request: raised?, recorded version, steps run with the version they saw. thorough adds all histories '
            'of length <= 3 without faults over the set {1,2,3}. non-trivial = history containing a failing request '
            'followed by another request')

    def corpus(self):
        return [{'orders': [2, 1, 3], 'version': 0,
                 'hist': [['up', None, 1], ['up', None, None], ['down', 2, None], ['up', None, None],
                          ['down', None, 0], ['down', None, None]]}]

    def generate(self, rng, tier):
        n = 1200 if tier == 'quick' else 12000
        maxlen = 6 if tier == 'quick' else 8
        pool = [1, 2, 3, 4, 5]
        for _ in range(n):
            k = rng.randint(1, 4)
            orders = rng.sample(pool, k)
            if rng.random() < 0.1:
                orders.append(rng.choice(orders))
            yield {'orders': orders, 'version': 0 if rng.random() < 0.8 else rng.randint(0, 5),
                   'hist': gen_history(rng, orders, maxlen)}
        if tier == 'thorough':
            reqs = [['up', None, None], ['down', None, None]] + [[k, n, None] for k in ('up', 'down') for n in (1, 2, 3)]
            for perm in itertools.permutations([1, 2, 3]):
                for L in range(1, 4):
                    for h in itertools.product(reqs, repeat=L):
                        yield {'orders': list(perm), 'version': 0, 'hist': [list(x) for x in h]}

    def emit(self, c):
        return '{| m_set := %s; m_ver := %s; m_hist := %s |}' % (
            e_list([e_Z(o) for o in c['orders']], 'Z'), e_Z(c['version']),
            e_list([e_request(r) for r in c['hist']], '(request * option nat)'))

    def impl(self, c):
        from vakt.storage.migration import Migrator
        mset, ctl = recording_set(c['orders'], c['version'])
        mig = Migrator(mset)
        out = []
        for kind, number, fault in c['hist']:
            ctl.begin(fault)
            try:
                getattr(mig, kind)(number) if number is not None else getattr(mig, kind)()
                st = 'ok'
            except StepFault:
                st = 'raised'
            out.append('%s v=%d %s' % (st, mset.version, ','.join(ctl.events)))
        return ' | '.join(out)

    def oracle(self, c, obs):
        """the statement on the observed trace: gating by the recorded version, order within whole-set requests,
        version recorded after each completed step, resume / idempotence"""
        ver = c['version']
        for (kind, number, fault), seg in zip(c['hist'], obs.split(' | ')):
            st, v, evs = seg.split(' ', 2) if seg.count(' ') >= 2 else (seg.split(' ') + [''])[:3]
            evs = [e for e in evs.split(',') if e]
            last = None
            for e in evs:
                name, at = e.split('@')
                at = int(at)
                failed = name.startswith('fail')
                name = name[4:] if failed else name
                up = name.startswith('up')
                n = int(name[2:] if up else name[4:])
                if at != ver:
                    return 'step %s saw version %d but the recorded version was %d' % (e, at, ver)
                if up and not n > ver:
                    return 'up step %d ran although the recorded version is %d' % (n, ver)
                if not up and not n <= ver:
                    return 'down step %d ran although the recorded version is %d' % (n, ver)
                if number is None and last is not None:
                    if (up and not n > last) or (not up and not n < last):
                        return 'whole-set request ran steps out of order: %s' % evs
                last = n
                if not failed:
                    ver = n if up else n - 1
            if int(v[2:]) != ver:
                return 'recorded version %s after the request, expected %d' % (v, ver)
        return None

    def nontrivial(self, c, obs):
        segs = obs.split(' | ')
        return any(s.startswith('raised') for s in segs[:-1])

    def shrink(self, c):
        h = c['hist']
        for i in range(len(h)):
            if len(h) > 1:
                yield dict(c, hist=h[:i] + h[i + 1:])

    def describe(self, c):
        return ('import json; from harness.checks.c18 import RecordingStream; '
                'print(RecordingStream().impl(json.loads(%r)))' % __import__('json').dumps(c))


class SqlSetStream(Stream):
    name = 'sql_migration_set'
    imports = 'From Vakt Require Import Model.Migration Harness.RunC18.'
    case_type = 'mcase'
    run_fn = 'run_mig'
    rule = ('the SQL migration set (one migration) on an in-memory SQLite database driven by request histories with '
            'faults injected into the migration step - before its body or (every other case) after its first CREATE/DROP TABLE '
            'statement went through; compared: raised?, recorded version, steps; oracle: the policy '
            'tables exist iff the recorded version is >= 1. non-trivial = history with a failing request')

    def corpus(self):
        # an up run interrupted after its first CREATE TABLE, repeated; then down interrupted likewise, repeated
        return [{'orders': [1], 'version': 0, 'inside': True,
                 'hist': [['up', None, 0], ['up', None, None], ['down', None, 0], ['down', None, None]]},
                {'orders': [1], 'version': 0, 'inside': True,
                 'hist': [['up', 1, 0], ['up', 1, None], ['up', None, None], ['down', 0, 0], ['down', 0, None]]}]

    def generate(self, rng, tier):
        n = 60 if tier == 'quick' else 400
        for k in range(n):
            h = gen_history(rng, [1], 6)
            yield {'orders': [1], 'version': 0, 'hist': h, 'inside': k % 2 == 1,
                   'who': [rng.choice([0, 1]) for _ in h] if k % 4 >= 2 else None}

    def emit(self, c):
        return RecordingStream().emit(c)

    def _run(self, c):
        from sqlalchemy import create_engine, inspect
        from sqlalchemy.orm import sessionmaker, scoped_session
        from vakt.storage.sql import SQLStorage
        from vakt.storage.sql.migrations import SQLMigrationSet
        from vakt.storage.migration import Migrator
        eng = create_engine('sqlite://')
        ses = scoped_session(sessionmaker(bind=eng))
        st = SQLStorage(ses)
        ctl = Ctl()
        inside = bool(c.get('inside'))

        def recorded():
            return SQLMigrationSet(st).last_applied()         # what the database says, read by a fresh set object

        def driver():
            mset = SQLMigrationSet(st)
            orig = mset.migrations

            def wrapped():
                out = []
                for m in orig():
                    up0, down0 = m.up, m.down

                    def up(m=m, up0=up0):
                        ctl.step('up', m.order, recorded(), inside)
                        try:
                            up0()
                        finally:
                            ctl.armed = False

                    def down(m=m, down0=down0):
                        ctl.step('down', m.order, recorded(), inside)
                        try:
                            down0()
                        finally:
                            ctl.armed = False
                    m.up, m.down = up, down
                    out.append(m)
                return out
            mset.migrations = wrapped
            return Migrator(mset)
        if inside:
            from sqlalchemy import event

            @event.listens_for(eng, 'after_cursor_execute')
            def _interrupt(conn, cursor, statement, parameters, context, executemany):
                if ctl.armed and statement.lstrip().upper().startswith(('CREATE TABLE', 'DROP TABLE')):
                    ctl.armed = False
                    raise StepFault('injected after the first DDL statement of the step')
        # two long-lived drivers over one database: requests alternate between them
        migs = [driver(), driver()]
        who = c.get('who') or [0] * len(c['hist'])
        out, schema = [], []
        for (kind, number, fault), w in zip(c['hist'], who):
            mig = migs[w]
            ctl.begin(fault)
            try:
                getattr(mig, kind)(number) if number is not None else getattr(mig, kind)()
                s = 'ok'
            except StepFault:
                s = 'raised'
            out.append('%s v=%d %s' % (s, recorded(), ','.join(ctl.events)))
            # after a request that was interrupted inside its DDL the schema is partial by construction
            if not (inside and s == 'raised') and not (inside and schema and schema[-1] is None and 'fail' not in out[-1]
                                                       and not ctl.events):
                schema.append(('vakt_policies' in inspect(eng).get_table_names(), recorded()))
            else:
                schema.append(None)
        ses.remove()
        eng.dispose()
        return ' | '.join(out), schema

    def impl(self, c):
        return self._run(c)[0]

    def oracle(self, c, obs):
        o = RecordingStream().oracle(c, obs)
        if o:
            return o
        for entry in self._run(c)[1]:
            if entry is None:
                continue
            has, v = entry
            if has != (v >= 1):
                return 'policy tables %s but recorded version is %d' % ('exist' if has else 'are absent', v)
        return None

    def nontrivial(self, c, obs):
        return 'raised' in obs


class MongoSetStream(Stream):
    name = 'mongo_migration_set'
    imports = 'From Vakt Require Import Model.Migration Harness.RunC18.'
    case_type = 'mcase'
    run_fn = 'run_mig'
    rule = ('the Mongo migration set (four migrations) on the Mongo client double, driven through Migrator by request '
            'histories with an exception injected into any step, half of them alternating between two long-lived '
            'Migrator objects over the same database; compared: raised?, recorded version (read back from '
            'the version collection), steps run. non-trivial = history with a failing request')

    def generate(self, rng, tier):
        n = 80 if tier == 'quick' else 600
        for _ in range(n):
            # whole-set requests only: the bodies of this set (index creation / removal) fail by themselves when a
            # by-number request has skipped a migration, which is the documented caveat of by-number requests
            h = [[k, None, f] for k, _n, f in gen_history(rng, [1, 2, 3, 4], 6)]
            who = [rng.choice([0, 1]) for _ in h] if rng.random() < 0.5 else None
            yield {'orders': [1, 2, 3, 4], 'version': 0, 'hist': h, 'who': who}

    def emit(self, c):
        return RecordingStream().emit(c)

    def impl(self, c):
        from vakt.storage.mongo import MongoStorage, MongoMigrationSet
        from vakt.storage.migration import Migrator
        from ..fakes.mongo_fake import FakeMongoClient
        st = MongoStorage(FakeMongoClient('4.2.1'), 'vakt_db')
        ctl = Ctl()

        def recorded():
            return MongoMigrationSet(st).last_applied()       # what the version collection says, read by a fresh set

        def driver():
            mset = MongoMigrationSet(st)
            orig = mset.migrations

            def wrapped():
                out = []
                for m in orig():
                    up0, down0 = m.up, m.down

                    def up(m=m, up0=up0):
                        ctl.step('up', m.order, recorded())
                        up0()

                    def down(m=m, down0=down0):
                        ctl.step('down', m.order, recorded())
                        down0()
                    m.up, m.down = up, down
                    out.append(m)
                return out
            mset.migrations = wrapped
            return Migrator(mset)
        # two long-lived drivers over one database (an application and an operator's shell): requests alternate
        migs = [driver(), driver()]
        who = c.get('who') or [0] * len(c['hist'])
        out = []
        for (kind, number, fault), w in zip(c['hist'], who):
            mig = migs[w]
            ctl.begin(fault)
            try:
                getattr(mig, kind)(number) if number is not None else getattr(mig, kind)()
                s_ = 'ok'
            except StepFault:
                s_ = 'raised'
            except Exception as e:  # noqa
                s_ = 'raised:' + type(e).__name__
            out.append('%s v=%d %s' % (s_, recorded(), ','.join(ctl.events)))
        return ' | '.join(out)

    def oracle(self, c, obs):
        return RecordingStream().oracle(c, obs)

    def nontrivial(self, c, obs):
        return 'raised' in obs


TRUSTED = [
    'Coq 8.16.1 kernel + vm_compute (no native_compute)',
    'Model/Migration.v (get_migrations, up/down loops, fault plan) hand-written from vakt/storage/migration.py, '
    'tied by the two streams (recording MigrationSet through Migrator; SQLMigrationSet on in-memory SQLite)',
    'fault model: the exception is raised inside m.up()/m.down(), before the version is saved',
]
ASSUME = ['each migration body is atomic and its down inverts its up (bodies of the SQL and Mongo sets are library '
          'calls; their effect on the schema is observed only on SQLite here; the Mongo set is covered by C19)',
          'by-number requests can legitimately break contiguity (down(2) at version 3, then up() re-runs step 3): '
          'the statement gates by the recorded version only']


def main(argv):
    return run_check('C18', [RecordingStream(), SqlSetStream(), MongoSetStream()], argv, trusted_base=TRUSTED, assumptions=ASSUME,
                     translated=('migration', 'on_generated', 'pin_sqlmig', 'pin_migrator', 'pin_mongo'))


if __name__ == '__main__':
    sys.exit(main(sys.argv[1:]))
