"""C06 - String checkers are exact/substring; checker and policy types never cross."""
import itertools
import sys

from .. import gen, specs, guardlib
from ..check import Stream, run_check
from .c07 import BackendDecisionStream as _C07Stream
from ..core import s_bool, s_exc
from .c03 import e_fcase

TAGS = [('<', '>'), ('<', '>'), ('<', '>'), ('{', '}'), ('|', '|'), ('<<', '>>'), ('é', 'ж')]


def strip_spec(e, st, en):
    """an element wholly enclosed in the delimiters is compared by its inner text"""
    if len(e) >= 1 and len(st) == 1 and len(en) == 1 and e[0] == st and e[-1] == en:
        return e[1:-1]
    return e


def fits_impl(c, cache_size=1024):
    ck = specs.mk_checker(c['checker'], cache_size)
    p = specs.mk_policy(c['policy'])
    q = None if c.get('inq') is None else specs.mk_inquiry(c['inq'])
    what = specs.py(c['what'])
    if isinstance(what, dict) and c.get('dict_default') is not None:
        # a dictionary that is a dict subclass answering every missing key with a default (like collections.defaultdict):
        # still "a dictionary that does not contain the attribute"
        dflt = specs.py(c['dict_default'][0])

        class Defaulting(dict):             # prints and compares like the dict it is (defaultdict's repr differs)
            def __missing__(self, key):
                return dflt
        what = Defaulting(what)
    try:
        r = ck.fits(p, c['field'], what, q)
    except Exception as e:  # noqa
        return s_exc(e)
    return s_bool(r) if isinstance(r, bool) else '<%r>' % (r,)


def pol(els, tags=('<', '>'), field='actions'):
    p = {'uid': 1, 'effect': 'allow', 'subjects': [], 'resources': [], 'actions': [],
         'context': [], 'description': None, 'tags': list(tags)}
    p[field] = els
    return p


class StringFitsStream(Stream):
    name = 'string_checkers_fits'
    imports = guardlib.GUARD_IMPORTS
    case_type = 'fcase'
    run_fn = 'run_fits'
    rule = ("one field of 1-3 string elements from {'', one char, tag only, both tags, tag-wrapped text, "
            "half-wrapped text, ordinary words} x string values equal to / substring of / one-point different "
            "from the (stripped) element; exact and fuzzy checkers; custom delimiter pairs; a small share of "
            "non-string values. thorough adds all strings of length <= 3 over {a, b, <, >} as element and value. "
            "non-trivial = element or value containing a delimiter, or the empty string")

    def corpus(self):
        return [{'checker': 'CExact', 'policy': pol([['s', '']]), 'field': 'actions', 'what': '', 'rxtable': []},
                {'checker': 'CFuzzy', 'policy': pol([['s', '']]), 'field': 'actions', 'what': '', 'rxtable': []},
                {'checker': 'CExact', 'policy': pol([['s', '<get>']]), 'field': 'actions', 'what': 'get', 'rxtable': []},
                {'checker': 'CFuzzy', 'policy': pol([['s', '<get>']]), 'field': 'actions', 'what': '<g', 'rxtable': []},
                {'checker': 'CExact', 'policy': pol([['s', ' admin']]), 'field': 'actions', 'what': ' admin', 'rxtable': []},
                {'checker': 'CExact', 'policy': pol([['s', ' admin']]), 'field': 'actions', 'what': 'admin', 'rxtable': []},
                {'checker': 'CFuzzy', 'policy': pol([['s', 'admin ']]), 'field': 'actions', 'what': 'min ', 'rxtable': []},
                {'checker': 'CExact', 'policy': pol([['s', ' <get> ']]), 'field': 'actions', 'what': 'get', 'rxtable': []}]

    def generate(self, rng, tier):
        n = 2500 if tier == 'quick' else 20000
        for _ in range(n):
            st, en = rng.choice(TAGS)
            words = ['', 'a', st, en, st + en, st + 'get' + en, 'get' + en, st + 'get', 'get', 'Get', 'a b',
                     st + en + 'x', st + st + 'a' + en + en, 'é', st + '' + en, 'x' + st + 'a' + en,
                     # surrounding white space is part of an element
                     ' get', 'get ', ' ', '\tget\n', ' ' + st + 'get' + en + ' ', st + ' get ' + en, '\n']
            els = [rng.choice(words) if rng.random() < 0.8 else gen.string(rng, 4, 'ab' + st[0] + en[0])
                   for _ in range(rng.choice([1, 1, 2, 3]))]
            e = rng.choice(els)
            inner = strip_spec(e, st, en)
            r = rng.random()
            if r < 0.3:
                v = inner
            elif r < 0.5:
                i0 = rng.randint(0, len(inner))
                v = inner[i0:rng.randint(i0, len(inner))]
            elif r < 0.65:
                v = e
            elif r < 0.9:
                v = gen.mutate_str(rng, inner, 'abG' + st[0] + en[0])
            else:
                v = rng.choice([None, 5, ['a'], {'D': [['a', 1]]}, 2.5, True])
            yield {'checker': rng.choice(['CExact', 'CFuzzy']), 'policy': pol([['s', x] for x in els], (st, en)),
                   'field': 'actions', 'what': v, 'rxtable': []}
        if tier == 'thorough':
            alpha = 'ab<>'
            strs = [''.join(t) for L in range(0, 4) for t in itertools.product(alpha, repeat=L)]
            for e in strs:
                for v in strs:
                    for ck in ('CExact', 'CFuzzy'):
                        yield {'checker': ck, 'policy': pol([['s', e]]), 'field': 'actions', 'what': v, 'rxtable': []}

    def emit(self, c):
        return e_fcase(c)

    def impl(self, c):
        return fits_impl(c)

    def oracle(self, c, obs):
        v = specs.py(c['what'])
        if not isinstance(v, str):
            return None
        st, en = c['policy']['tags']
        els = [strip_spec(e[1], st, en) for e in c['policy'][c['field']] if e[0] == 's']
        want = any(x == v for x in els) if c['checker'] == 'CExact' else any(v in x for x in els)
        if obs != s_bool(want):
            return '%s semantics says %s, checker answered %s' % (
                'equality' if c['checker'] == 'CExact' else 'substring', want, obs)
        return None

    def nontrivial(self, c, obs):
        st, en = c['policy']['tags']
        v = c['what']
        return any(st in e[1] or en in e[1] or e[1] == '' for e in c['policy'][c['field']]) or v == ''

    def shrink(self, c):
        els = c['policy'][c['field']]
        for i in range(len(els)):
            if len(els) > 1:
                yield dict(c, policy=pol(els[:i] + els[i + 1:], c['policy']['tags']))

    def describe(self, c):
        return ('import json; from harness.checks.c06 import fits_impl; print(fits_impl(json.loads(%r)))'
                % __import__('json').dumps(c))


class CrossTypeStream(Stream):
    name = 'checker_policy_type_separation'
    imports = guardlib.GUARD_IMPORTS
    case_type = 'fcase'
    run_fn = 'run_fits'
    rule = ('rule-based policies (rule and attribute-dictionary elements) offered to the exact, fuzzy and regex '
            'checkers, and string-based policies offered to the rules checker, with values that would match under '
            'the right checker. non-trivial = every case (the field is non-empty)')

    def generate(self, rng, tier):
        n = 800 if tier == 'quick' else 8000
        for _ in range(n):
            if rng.random() < 0.5:
                p, _, smp, _ = gen.rule_policy(rng, 1)
                f = rng.choice(['subjects', 'resources', 'actions'])
                v = rng.choice(smp[f]) if smp[f] and rng.random() < 0.7 else gen.value(rng, 1)
                if rng.random() < 0.6:
                    v = gen.word(rng)
                yield {'checker': rng.choice(['CExact', 'CFuzzy', 'CRegex']), 'policy': p, 'field': f,
                       'what': specs.jv(v), 'rxtable': [], 'inq': None}
            else:
                p, t, smp, _ = gen.string_policy(rng, 1)
                f = rng.choice(['subjects', 'resources', 'actions'])
                s = rng.choice(smp[f]) if smp[f] else None
                v = s['CExact'] if s else gen.word(rng)
                yield {'checker': 'CRules', 'policy': p, 'field': f, 'what': v, 'rxtable': t,
                       'inq': None if rng.random() < 0.5 else
                       {'resource': v, 'action': v, 'subject': v, 'context': None}}

    def emit(self, c):
        base = e_fcase(c)
        if c.get('inq') is not None:
            base = base.replace('f_inq := (@None inquiry)', 'f_inq := (Some %s)' % specs.e_inquiry(c['inq']))
        return base

    def impl(self, c):
        return fits_impl(c)

    def oracle(self, c, obs):
        if obs != 'F':
            # a rule-based policy under a string/regex checker with a non-string value may legitimately raise
            # only if a string element were present; there is none, so anything but False is a violation
            return 'policy and checker types crossed: fits answered %s' % obs
        return None

    def nontrivial(self, c, obs):
        return len(c['policy'][c['field']]) > 0


TRUSTED = [
    'Coq 8.16.1 kernel + vm_compute (no native_compute)',
    'Model/Checkers.v fits_exact / fits_fuzzy / fits_regex / fits_rules hand-written from vakt/checker.py, tied by '
    'the two streams; Model/Policy.v typed policy view',
    'spec oracle: equality / substring on the stripped element, written from the property text',
]
ASSUME = ['str subclasses as elements are outside the universe',
          'non-string values under the fuzzy checker raise TypeError (stated by the model, outside the property)']


class StringCheckersBehindStoragesStream(_C07Stream):
    """what a user of the string checkers sees is the guard's answer: with every storage in front of the checker the
    answer must still be the one the checker semantics gives (the storage's candidate pre-filter included)"""
    name = 'string_checkers_behind_storages'
    rule = ('exact / fuzzy checkers behind Memory, SQL on SQLite, Redis (client double) and the enfolding cache over '
            'SQLite: the grid of values special for LIKE / quoting / regex (plain, embedded, delimiter-wrapped) and '
            'generated stores; the model answers with the in-memory decision, the oracle requires every matching '
            'policy among the storage\'s candidates. non-trivial as for C07')
    CONFIGS = ('memory', 'sqlite', 'redis_json', 'enfold_sqlite', 'observable_sqlite')

    def corpus(self):
        return []

    def generate(self, rng, tier):
        seen = set()
        for c in self.grid():
            if c['checker'] in ('CExact', 'CFuzzy') and c['config'] in self.CONFIGS:
                seen.add(self.key(c))
                yield c
        n = 200 if tier == 'quick' else 3000
        inner = super().generate(rng, 'quick' if tier == 'quick' else 'thorough')
        k = 0
        for c in inner:
            if c.get('checker') in ('CExact', 'CFuzzy') and c.get('config') in self.CONFIGS and \
                    len(c['policies']) <= 40 and self.key(c) not in seen:
                k += 1
                yield c
                if k >= n:
                    return


def main(argv):
    return run_check('C06', [StringFitsStream(), CrossTypeStream(), StringCheckersBehindStoragesStream()], argv,
                     trusted_base=TRUSTED, assumptions=ASSUME,
                     translated=('checker', 'parser', 'policy', 'guard', 'sql', 'pin_sql'))


if __name__ == '__main__':
    sys.exit(main(sys.argv[1:]))
