"""C19 - Mongo data migrations preserve policy meaning and are reversible."""
import copy
import json
import logging
import re
import sys

from .. import gen, specs, guardlib, storelib
from ..check import Stream, run_check
from ..core import e_list, e_pstr, e_val, s_val, s_bool
from .c09 import probe

OLD = {'Equal': 'vakt.rules.string.StringEqualRule', 'PairsEqual': 'vakt.rules.string.StringPairsEqualRule',
       'CIDR': 'vakt.rules.net.CIDRRule', 'SubjectEqual': 'vakt.rules.inquiry.SubjectEqualRule',
       'ActionEqual': 'vakt.rules.inquiry.ActionEqualRule', 'ResourceIn': 'vakt.rules.inquiry.ResourceInRule'}
NEW = {'Equal': 'vakt.rules.string.Equal', 'PairsEqual': 'vakt.rules.string.PairsEqual',
       'CIDR': 'vakt.rules.net.CIDR', 'SubjectEqual': 'vakt.rules.inquiry.SubjectEqual',
       'ActionEqual': 'vakt.rules.inquiry.ActionEqual', 'ResourceIn': 'vakt.rules.inquiry.ResourceIn'}
STEP_COQ = {'up2': 'Up2', 'down2': 'Down2', 'up3': 'Up3', 'down3': 'Down3', 'up4': 'Up4', 'down4': 'Down4'}
ORDER = {'1.1.0': 1, '1.1.1': 2, '1.2.0': 3, '1.4.0': 4}
LAYOUT_OF = {1: '1.1.0', 2: '1.1.1', 3: '1.2.0', 4: '1.4.0'}


def rule_payload(r, names):
    """(class name, contents) of a rule spec under the given naming"""
    k = r[0]
    if k == 'Equal':
        return names['Equal'], {'val': r[1], 'ci': r[2]}
    if k == 'CIDR':
        return names['CIDR'], {'cidr': r[1]}
    if k in ('PairsEqual', 'SubjectEqual', 'ActionEqual', 'ResourceIn'):
        return names[k], {}
    if k == 'Custom':            # a third-party (importable) rule: r = ['Custom', contents]
        return 'harness.customrules.ConstRule', dict(r[1])
    if k == 'RegexMatchRule':    # vakt's own rule that could not be stored in 1.1.0
        return 'vakt.rules.string.RegexMatchRule', {'pattern': r[1]}
    if k == 'New':               # a class that exists only from 1.2.0: r = ['New', class name, contents]
        return r[1], dict(r[2])
    if k in ('Eq', 'NotEq'):     # operator rules (1.2.0 onwards); the state a stored rule has is its argument, as given
        import jsonpickle
        return 'vakt.rules.operator.' + k, {'val': json.loads(jsonpickle.encode(specs.py(r[1])))}
    raise ValueError(r)


def legacy_doc(lp, layout):
    """document of logical policy lp in the given layout"""
    d = {'_id': lp['uid'], 'uid': lp['uid'], 'description': lp['description'], 'effect': lp['effect'],
         'subjects': list(lp['subjects']), 'resources': list(lp['resources']), 'actions': list(lp['actions'])}
    if layout == '1.1.0':
        d['rules'] = {}
        for name, r in lp['rules']:
            if r[0] == 'BadJson':
                d['rules'][name] = '{not json'
            else:
                t, c = rule_payload(r, OLD)
                d['rules'][name] = json.dumps({'type': t, 'contents': c}, sort_keys=True)
    elif layout == '1.1.1':
        d['rules'] = {}
        for name, r in lp['rules']:
            t, c = rule_payload(r, OLD)
            d['rules'][name] = dict({'py/object': t}, **c)
    else:
        d['type'] = lp.get('type', 1)
        d['context'] = {}
        for name, r in lp['rules']:
            t, c = rule_payload(r, NEW)
            d['context'][name] = dict({'py/object': t}, **c)
        if layout == '1.4.0' and d['type'] == 1:
            from vakt.parser import compile_regex
            for f in ('actions', 'subjects', 'resources'):
                d[f + '_compiled_regex'] = [compile_regex(e, '<', '>').pattern if ('<' in e and '>' in e) else e
                                            for e in d[f]]
    return d


def doc_value(d):
    """python value of a stored document for comparison / emission: _id dropped, 1.1.0 rule strings parsed"""
    d = {k: copy.deepcopy(v) for k, v in d.items() if k != '_id'}
    if isinstance(d.get('rules'), dict):
        for name, v in list(d['rules'].items()):
            if isinstance(v, str):
                try:
                    d['rules'][name] = json.loads(v)
                except ValueError:
                    pass
    return d


def sort_keys(v):
    if isinstance(v, dict):
        return {k: sort_keys(v[k]) for k in sorted(v)}
    if isinstance(v, list):
        return [sort_keys(x) for x in v]
    return v


def migration(storage, order):
    import vakt.storage.mongo as vm
    return {2: vm.Migration1x1x0To1x1x1, 3: vm.Migration1x1x1To1x2x0, 4: vm.Migration1x2x0To1x4x0}[order](storage)


def run_steps(docs, steps, version='4.2.1', via_version=None):
    """run the real migrations on the client double; -> (failed ids per step, final documents, storage handle).
    via_version = n: the steps are requested by number through Migrator(MongoMigrationSet), the recorded version
    being n at the start (the collection's layout); None: the migration objects are called directly."""
    h = storelib.make_backend('mongo', version)
    coll = h.extra['client']['vakt_db']['vakt_policies']
    for d in docs:
        coll.docs.append(copy.deepcopy(d))
    # indices the earlier migrations would have created (so that drop_index in a down step finds them)
    for name in ('actions_idx', 'subjects_idx', 'resources_idx', 'type_idx', 'actions_compiled_regex_idx',
                 'subjects_compiled_regex_idx', 'resources_compiled_regex_idx'):
        coll.indexes[name] = {'key': [(name[:-4], 1)]}
    failed = []
    lg = logging.getLogger('vakt.storage.mongo')
    cap = guardlib.Capture()
    lg.addHandler(cap)
    old_level = lg.level
    lg.setLevel(logging.DEBUG)
    ms = None
    if via_version is not None:
        import vakt.storage.mongo as vm
        from vakt.storage.migration import Migrator
        ms = vm.MongoMigrationSet(h.storage)
        ms.save_applied_number(via_version)
        # two long-lived drivers over the same database take turns (an application and an operator's shell)
        drivers = [Migrator(ms), Migrator(vm.MongoMigrationSet(h.storage))]
    try:
        for k, s in enumerate(steps):
            cap.records = []
            if ms is not None:
                getattr(drivers[k % 2], s[:-1])(int(s[-1]))
            else:
                m = migration(h.storage, int(s[-1]))
                getattr(m, s[:-1])()
            ids = []
            for r in cap.records:
                msg = r.getMessage() if isinstance(r.msg, str) else ''
                mm = re.search(r'Mongo IDs of failed Policies are: (\[.*\])', msg)
                if mm:
                    ids = eval(mm.group(1))        # a list literal of uids written by vakt itself
            failed.append(ids)
    finally:
        lg.removeHandler(cap)
        lg.setLevel(old_level)
    return failed, [copy.deepcopy(d) for d in coll.docs], h


def gen_logical(rng, uid, kind='convertible'):
    subjects = [rng.choice(['Max', '<[A-Z][a-z]+>', 'a<.*>', 'admin'])]
    resources = [rng.choice(['book', '<b.+>', 'x', 'library:<\\d+>'])]
    actions = [rng.choice(['get', '<get|put>', 'del<.*>'])]
    rules = []
    pool = [['Equal', rng.choice(['x', 'Max', 'é']), rng.random() < 0.5], ['PairsEqual'],
            ['CIDR', rng.choice(['10.0.0.0/8', '192.168.2.0/24'])], ['SubjectEqual'], ['ActionEqual'], ['ResourceIn']]
    for name in rng.sample(['ip', 'owner', 'name', 'k'], rng.choice([0, 1, 1, 2])):
        rules.append([name, rng.choice(pool)])
    lp = {'uid': uid, 'description': rng.choice([None, 'text']), 'effect': rng.choice(['allow', 'deny']),
          'subjects': subjects, 'resources': resources, 'actions': actions, 'rules': rules, 'type': 1}
    if kind == 'custom_primitive':
        lp['rules'].append(['cust', ['Custom', {'value': rng.choice([1, 'z', None])}]])
    elif kind == 'custom_nonprimitive':
        # state that 1.1.0 cannot hold: a nested object, or any other jsonpickle-tagged value (set, tuple, type, ...)
        lp['rules'].append(['cust', ['Custom', {'value': rng.choice([
            {'py/object': 'harness.customrules.ConstRule', 'value': 1}, {'py/set': [1, 2]}, {'py/tuple': ['a', 'b']},
            {'py/type': 'builtins.int'}])}]])
    elif kind == 'regexmatchrule':
        lp['rules'].append(['rx', ['RegexMatchRule', '^a+$']])
    elif kind == 'new_only':
        lp['rules'].append(['n', rng.choice([['New', 'vakt.rules.operator.Eq', {'val': 1}],
                                             ['New', 'vakt.rules.string.StartsWith', {'val': 'a', 'ci': False}],
                                             ['New', 'vakt.rules.logic.Truthy', {}],
                                             ['New', 'vakt.rules.list.In', {'data': {'py/set': [1, 2]}}]])])
    elif kind == 'rule_based':
        lp['type'] = 2
        el = {'name': {'py/object': 'vakt.rules.operator.Eq', 'val': 'Max'}}
        lp['subjects'], lp['resources'], lp['actions'] = [el], [{'py/object': 'vakt.rules.logic.Any'}], [el]
    elif kind == 'bad_json':
        lp['rules'].append(['bad', ['BadJson']])
    return lp


def paths_from(layout):
    """step sequences that make sense starting from a layout"""
    v = ORDER[layout]
    ups = ['up%d' % k for k in range(v + 1, 5)]
    downs = ['down%d' % k for k in range(v, 1, -1)]
    seqs = [ups, downs, ups + ['down%d' % k for k in range(4, 1, -1)], downs + ['up%d' % k for k in range(2, 5)]]
    out = []
    for s in seqs:
        for n in range(1, len(s) + 1):
            out.append(s[:n])
    return [s for s in out if s]


def loadable_before_up4(lp):
    return all(r[1][0] not in ('New', 'BadJson') or r[1][0] == 'New' for r in lp['rules'])


class DocStream(Stream):
    name = 'migration_documents'
    imports = 'From Vakt Require Import Model.MongoMig Harness.RunC19.'
    case_type = 'mgcase'
    run_fn = 'run_mg'
    shard = 100
    rule = ('collections of 1-4 generated documents in the layouts 1.1.0 (string-encoded rules), 1.1.1 (object '
            'rules), 1.2.0 (typed, context) and 1.4.0 (compiled fields) with built-in, renamed, custom (primitive and '
            'non-primitive payload), RegexMatchRule, 1.2.0-only and malformed-JSON rule payloads and rule-based '
            'policies; all prefixes of the up and down paths over migrations 2-4 from each layout; both server '
            'version branches; every 55th collection has 50-120 documents (the window edges of the batched walk of migration 4); compared: ids reported as failed per step and the resulting documents. non-trivial = '
            'case in which a step reports a failed document and another document is converted')

    def generate(self, rng, tier):
        n = 220 if tier == 'quick' else 2000
        kinds = ['convertible', 'convertible', 'convertible', 'custom_primitive', 'custom_nonprimitive',
                 'regexmatchrule', 'new_only', 'rule_based', 'bad_json']
        for i in range(n):
            layout = rng.choice(list(ORDER))
            lps = []
            # every 55th collection is a large one: migration #4 walks the collection in windows of 50 documents
            # (Storage.retrieve_all over MongoStorage.get_all) - the window edges must not lose or repeat a document
            big = rng.choice([50, 51, 99, 100, 101, 120]) if i % 55 == 7 else 0
            if big:
                layout = rng.choice(['1.1.1', '1.2.0'])
            for j in range(big or rng.randint(1, 4)):
                k = rng.choice(kinds) if not big else 'convertible'
                if k == 'bad_json' and layout != '1.1.0':
                    k = 'convertible'
                if k in ('new_only', 'rule_based') and ORDER[layout] < 3:
                    k = 'convertible'
                if k == 'regexmatchrule' and ORDER[layout] > 2:
                    k = 'convertible'
                lps.append(gen_logical(rng, 'u%d' % j, k))
            docs = [legacy_doc(lp, layout) for lp in lps]
            steps = rng.choice(paths_from(layout))
            if big:
                steps = max((p for p in paths_from(layout) if p and all(x.startswith('up') for x in p)), key=len)
            if 'up4' in steps and any(any(r[1][0] in ('BadJson',) for r in lp['rules']) for lp in lps):
                steps = steps[:steps.index('up4')]
                if not steps:
                    continue
            yield {'layout': layout, 'docs': docs, 'steps': steps, 'version': rng.choice(['4.0.9', '4.2.1']),
                   'via': rng.random() < 0.5}

    def emit(self, c):
        docs = []
        for d in c['docs']:
            v = doc_value(d)
            docs.append(e_list(['(%s, %s)' % (e_pstr(k), e_val(x)) for k, x in v.items()], '(pstr * val)'))
        return '{| mg_coll := %s; mg_steps := %s |}' % (
            e_list(docs, '(list (pstr * val))'), e_list([STEP_COQ[s] for s in c['steps']], 'mstep'))

    def impl(self, c):
        failed, docs, h = run_steps(c['docs'], c['steps'], c['version'],
                                    ORDER[c['layout']] if c.get('via') else None)
        h.close()
        return (' | '.join('failed=[' + ','.join(s_val(u) for u in f) + ']' for f in failed) + ' || ' +
                ' ;; '.join(s_val(sort_keys(doc_value(d))) for d in docs))

    def oracle(self, c, obs):
        failed, docs, h = run_steps(c['docs'], c['steps'], c['version'])
        h.close()
        before = [d['uid'] for d in c['docs']]
        after = [d.get('uid') for d in docs]
        if sorted(map(str, before)) != sorted(map(str, after)):
            return 'documents were dropped or invented: %s -> %s' % (before, after)
        # a document reported as failed by the last step is stored exactly as it was before that step
        if len(c['steps']) >= 1:
            f0, d0, h0 = run_steps(c['docs'], c['steps'][:-1], c['version'])
            h0.close()
            prev = {d['uid']: d for d in d0}
            now = {d['uid']: d for d in docs}
            for u in failed[-1]:
                if prev.get(u) != now.get(u):
                    return 'document %r was reported as not convertible but was altered' % u
        # reversibility: an up path followed by the mirrored down path restores convertible documents
        steps = c['steps']
        ups = [s for s in steps if s.startswith('up')]
        if ups and steps == ups + ['down' + s[2:] for s in reversed(ups)] and not any(failed):
            a = [sort_keys(doc_value(d)) for d in c['docs']]
            b = [sort_keys(doc_value(d)) for d in docs]
            if a != b:
                return 'up then down did not restore the documents'
        return None

    def nontrivial(self, c, obs):
        head = obs.split(' || ')[0]
        return 'failed=[' in head and any(f != 'failed=[]' for f in head.split(' | ')) and len(c['docs']) >= 2

    def shrink(self, c):
        for i in range(len(c['docs'])):
            if len(c['docs']) > 1:
                yield dict(c, docs=c['docs'][:i] + c['docs'][i + 1:])
        if len(c['steps']) > 1:
            yield dict(c, steps=c['steps'][:-1])

    def describe(self, c):
        return ('import json; from harness.checks.c19 import DocStream; print(DocStream().impl(json.loads(%r)))'
                % json.dumps(c))


class MeaningStream(Stream):
    name = 'meaning_after_upgrade'
    imports = guardlib.GUARD_IMPORTS.replace('Harness.RunGuard.', 'Harness.RunGuard Harness.RunC09.')
    case_type = 'pcase'
    run_fn = 'run_pcase'
    shard = 120
    rule = ('a string-based policy with context rules from the classes that existed before 1.2.0 is written as a '
            '1.1.0 or 1.1.1 document, the collection is upgraded with migrations 2-4 (both server branches), the '
            'policy is read with MongoStorage.get and probed with inquiries under the regex and exact checkers; '
            'the verdicts are compared with the model\'s verdicts for the policy. non-trivial = a probe matches')

    def generate(self, rng, tier):
        n = 250 if tier == 'quick' else 2500
        for i in range(n):
            lp = gen_logical(rng, 'u1', 'convertible')
            layout = rng.choice(['1.1.0', '1.1.1', '1.2.0'])
            if layout == '1.2.0' and rng.random() < 0.6:
                # rules that exist from 1.2.0, stored with the argument they were created with (a tuple stays a tuple
                # in the document: {"py/tuple": [...]})
                arg = rng.choice([{'T': ['admin', 'dev']}, {'T': [1]}, ['a', 'b'], 'x', 7, {'T': []}])
                lp['rules'] = [r for r in lp['rules'] if r[0] != 'k'] + [['k', [rng.choice(['Eq', 'Eq', 'NotEq']), arg]]]
            # the policy the document encodes, as a spec of the current model
            ctx = []
            for name, r in lp['rules']:
                ctx.append([name, r])
            p = {'uid': lp['uid'], 'effect': lp['effect'], 'subjects': [['s', e] for e in lp['subjects']],
                 'resources': [['s', e] for e in lp['resources']], 'actions': [['s', e] for e in lp['actions']],
                 'context': ctx, 'description': lp['description'], 'tags': ['<', '>']}
            table = [['[A-Z][a-z]+', ['cat', ['cls', False, [[65, 90]]], ['plus', ['cls', False, [[97, 122]]]]]],
                     ['.*', ['star', ['dot']]], ['b.+', ['cat', ['chr', 98], ['plus', ['dot']]]],
                     ['\\d+', ['plus', ['cls', False, [[48, 57]]]]],
                     ['get|put', ['alt', gen.rx_of_literal('get'), gen.rx_of_literal('put')]]]
            probes = []
            for _ in range(3):
                ctxv = {}
                for name, r in lp['rules']:
                    if r[0] in ('Eq', 'NotEq'):
                        a = specs.py(r[1])
                        ctxv[name] = rng.choice([list(a) if isinstance(a, tuple) else a, a, 'other'])
                        continue
                    ctxv[name] = gen.satisfying_operand(rng, r if r[0] != 'CIDR' else ['CIDR', r[1]])
                q = {'subject': rng.choice(['Max', 'Nina', 'admin', 'aXY', 'max']),
                     'resource': rng.choice(['book', 'bxy', 'x', 'library:12', 'library:x']),
                     'action': rng.choice(['get', 'put', 'delete', 'del']),
                     'context': specs.jv(ctxv) if rng.random() < 0.85 else None}
                probes.append(q)
            yield {'lp': lp, 'layout': layout, 'policy': p, 'probes': probes, 'rxtable': table,
                   'version': rng.choice(['4.0.9', '4.2.1'])}

    def corpus(self):
        # Eq / NotEq created from a tuple are stored with the tuple ({"py/tuple": [...]}); after the upgrade the rule read
        # from the document must still hold for the equal LIST an inquiry carries (documents are restored without
        # running any constructor)
        out = []
        table = [['[A-Z][a-z]+', ['cat', ['cls', False, [[65, 90]]], ['plus', ['cls', False, [[97, 122]]]]]],
                 ['b.+', ['cat', ['chr', 98], ['plus', ['dot']]]],
                 ['get|put', ['alt', gen.rx_of_literal('get'), gen.rx_of_literal('put')]]]
        for name in ('Eq', 'NotEq'):
            for eff in ('allow', 'deny'):
                lp = {'uid': 'u1', 'description': 'text', 'effect': eff, 'subjects': ['<[A-Z][a-z]+>'],
                      'resources': ['<b.+>'], 'actions': ['<get|put>'],
                      'rules': [['k', [name, {'T': ['admin', 'dev']}]]], 'type': 1}
                p = {'uid': 'u1', 'effect': eff, 'subjects': [['s', '<[A-Z][a-z]+>']], 'resources': [['s', '<b.+>']],
                     'actions': [['s', '<get|put>']], 'context': [['k', [name, {'T': ['admin', 'dev']}]]],
                     'description': 'text', 'tags': ['<', '>']}
                probes = [{'subject': 'Max', 'resource': 'book', 'action': 'get', 'context': {'D': [['k', v]]}}
                          for v in (['admin', 'dev'], {'T': ['admin', 'dev']}, ['admin'], 'other')]
                for ver in ('4.0.9', '4.2.1'):
                    out.append({'lp': lp, 'layout': '1.2.0', 'policy': p, 'probes': probes, 'rxtable': table,
                                'version': ver})
        return out

    def emit(self, c):
        return '{| pc_table := %s; pc_pol := %s; pc_probes := %s |}' % (
            guardlib.e_table(c['rxtable']), specs.e_policy(c['policy']),
            e_list([specs.e_inquiry(q) for q in c['probes']], 'inquiry'))

    def impl(self, c):
        steps = ['up%d' % k for k in range(ORDER[c['layout']] + 1, 5)]
        failed, docs, h = run_steps([legacy_doc(c['lp'], c['layout'])], steps, c['version'])
        try:
            if any(failed):
                return 'MIGRATION-FAILED %r' % failed
            pol = h.storage.get(c['lp']['uid'])
            if pol is None:
                return 'LOAD-FAILED none'
            return probe(pol, c['probes'])
        except Exception as e:  # noqa
            return 'LOAD-FAILED %s' % type(e).__name__
        finally:
            h.close()

    def nontrivial(self, c, obs):
        return 'T' in obs.split(' | ', 1)[-1]


TRUSTED = [
    'Coq 8.16.1 kernel + vm_compute (no native_compute)',
    'Model/MongoMig.v: the processors of migrations 2-4 and _each_doc as functions on documents, hand-written from '
    'vakt/storage/mongo.py, tied by the migration_documents stream; meaning after upgrade is tied to the checker / '
    'rule models by the meaning_after_upgrade stream',
    'MongoDB is a client double (harness/fakes/mongo_fake.py: find / replace_one / update_one / indexes); legacy '
    'layouts are produced by an encoder in the harness written from the migration code and the repository tests',
]
ASSUME = ['real MongoDB cursor / replace semantics are not exhibited; the semantics of a legacy rule is that of the class '
          'it is renamed to (C19 partial)',
          'documents have _id == uid (what MongoStorage writes)']


def main(argv):
    return run_check('C19', [DocStream(), MeaningStream()], argv, trusted_base=TRUSTED, assumptions=ASSUME,
                     translated=('migration', 'mongo', 'mongomig', 'pin_migrator', 'pin_mongo', 'pin_rules', 'pin_util'))


if __name__ == '__main__':
    sys.exit(main(sys.argv[1:]))
