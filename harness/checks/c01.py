"""C01 - Deny-overrides decision with default deny."""
import sys

from .. import gen, specs, guardlib
from ..check import Stream, run_check
from ..core import s_bool


class DecideStream(Stream):
    name = 'guard_decision'
    imports = guardlib.GUARD_IMPORTS
    case_type = 'gcase'
    run_fn = 'run_decide'
    rule = ('stores of 0-7 string- or rule-based policies (junk effects included) and an inquiry derived from one '
            'of them so that about half of the (policy, inquiry) pairs match; all four checkers; every case is also '
            'run on a permuted store and with uids reassigned (spec oracle). non-trivial = at least one stored '
            'policy matches the inquiry; distinct by canonical JSON of (policies, inquiry, checker)')

    def corpus(self):
        pa = {'uid': 1, 'effect': 'allow', 'subjects': [['s', 'Max']], 'resources': [['s', '<.*>']],
              'actions': [['s', 'get']], 'context': [], 'description': None, 'tags': ['<', '>']}
        pd = dict(pa, uid=2, effect='ALLOW')
        inq = {'resource': 'r', 'action': 'get', 'subject': 'Max', 'context': None}
        t = [['.*', ['star', ['dot']]]]
        # a restricted context key that is present with the value None / 0 (present is not the same as truthy)
        pc = dict(pa, uid=3, context=[['k', ['Falsy']]])
        pdn = dict(pa, uid=4, effect='deny', context=[['k', ['Eq', None]]])
        inq_none = dict(inq, context=specs.jv({'k': None}))
        inq_zero = dict(inq, context=specs.jv({'k': 0}))
        extra = [{'checker': 'CRegex', 'policies': [pc], 'inquiry': inq_none, 'rxtable': t},
                 {'checker': 'CRegex', 'policies': [pc], 'inquiry': inq_zero, 'rxtable': t},
                 {'checker': 'CRegex', 'policies': [pa, pdn], 'inquiry': inq_none, 'rxtable': t}]
        # an inquiry-matching rule with an attribute the inquiry's element lacks: unsatisfied, whatever it is compared
        # with - None included
        pm = {'uid': 5, 'effect': 'allow', 'subjects': [['r', ['Any']]], 'actions': [['r', ['Any']]],
              'resources': [['d', [['owner', ['SubjectMatch', 'id']]]]], 'context': [], 'description': None,
              'tags': ['<', '>']}
        pmc = dict(pm, uid=6, resources=[['r', ['Any']]], context=[['owner', ['SubjectMatch', 'id']]])
        qm = {'resource': specs.jv({'owner': None}), 'action': 'read', 'subject': specs.jv({'name': 'guest'}),
              'context': specs.jv({'owner': None})}
        qm2 = dict(qm, subject=specs.jv({'name': 'guest', 'id': None}))
        extra += [{'checker': 'CRules', 'policies': [pm], 'inquiry': qm, 'rxtable': []},
                  {'checker': 'CRules', 'policies': [pmc], 'inquiry': qm, 'rxtable': []},
                  {'checker': 'CRules', 'policies': [pm, pmc], 'inquiry': qm2, 'rxtable': []}]
        return extra + [{'checker': 'CRegex', 'policies': [pa], 'inquiry': inq, 'rxtable': t},
                {'checker': 'CRegex', 'policies': [pa, pd], 'inquiry': inq, 'rxtable': t},
                {'checker': 'CRegex', 'policies': [], 'inquiry': inq, 'rxtable': t}]

    def generate(self, rng, tier):
        n = 1600 if tier == 'quick' else 24000
        for k in range(n):
            ck = specs.CHECKERS[k % 4]
            yield gen.scenario(rng, ck, max_segs=self.max_segs)
        if tier == 'thorough':
            # exhaustive: all stores of <= 3 policies over {allow, 'ALLOW'} x {matching, not matching}
            import itertools
            base = self.corpus()[0]
            inq = base['inquiry']
            alpha = []
            for eff in ('allow', 'ALLOW'):
                for act in ('get', 'put'):
                    alpha.append(dict(base['policies'][0], effect=eff, actions=[['s', act]]))
            for L in range(0, 4):
                for combo in itertools.product(alpha, repeat=L):
                    pols = [dict(p, uid=i + 1) for i, p in enumerate(combo)]
                    yield {'checker': 'CRegex', 'policies': pols, 'inquiry': inq, 'rxtable': base['rxtable']}

    max_segs = 2

    def emit(self, c):
        return guardlib.e_gcase(c)

    def impl(self, c):
        return guardlib.decide_impl(c)

    def oracle(self, c, obs):
        if obs not in ('T', 'F'):
            return 'decision is not a strict boolean: %s' % obs
        want = guardlib.deny_overrides(c)
        if want is not None and want != (obs == 'T'):
            return 'deny-overrides recomputed from per-policy matches gives %s, guard answered %s' % (want, obs)
        # insertion order and uids are irrelevant
        import random
        r = random.Random(repr(c['inquiry']))
        pols = list(c['policies'])
        r.shuffle(pols)
        v1 = guardlib.decide_impl(dict(c, policies=pols))
        v2 = guardlib.decide_impl(dict(c, policies=[dict(p, uid='u%d' % (100 - i)) for i, p in enumerate(c['policies'])]))
        if want is not None and (v1 != obs or v2 != obs):
            return 'decision depends on insertion order or uids: %s / permuted %s / re-uid %s' % (obs, v1, v2)
        return None

    def nontrivial(self, c, obs):
        mv, _ = guardlib.match_vector(c)
        return 'T' in mv

    def shrink(self, c):
        ps = c['policies']
        for i in range(len(ps)):
            yield dict(c, policies=ps[:i] + ps[i + 1:])
        for i, p in enumerate(ps):
            if p['context']:
                yield dict(c, policies=ps[:i] + [dict(p, context=[])] + ps[i + 1:])
            for f in ('subjects', 'resources', 'actions'):
                if len(p[f]) > 1:
                    for j in range(len(p[f])):
                        q = dict(p)
                        q[f] = p[f][:j] + p[f][j + 1:]
                        yield dict(c, policies=ps[:i] + [q] + ps[i + 1:])

    def describe(self, c):
        return ('import json; from harness import guardlib; c = json.loads(%r); '
                'print(guardlib.decide_impl(c), guardlib.match_vector(c)[0])' % __import__('json').dumps(c))


from .c11 import CachedGuardStream as _C11Stream  # noqa: E402


class StoreChangesStream(_C11Stream):
    """"for every stored policy set": the policy set a guard decides over is the one stored NOW.  A guard created with the
    decision cache is asked, the store is changed through the storage returned alongside it, the guard is asked again
    (the caller keeps only the guard and that storage)"""
    name = 'decisions_follow_the_store'
    rule = ('histories of decisions interleaved with add / update / delete through create_cached_guard(...)[:2] (the '
            'returned cache handle is dropped) over Memory / SQLite / Redis: every answer is compared with the model\'s '
            'decision over the store as it is at that moment. non-trivial as for C11')

    def corpus(self):
        return []

    def generate(self, rng, tier):
        n = 60 if tier == 'quick' else 800
        k = 0
        for c in super().generate(rng, tier):
            if c.get('custom'):
                continue
            c['drop_handle'] = True
            c['reuse'] = False
            yield c
            k += 1
            if k >= n:
                return


TRUSTED = [
    'Coq 8.16.1 kernel + vm_compute (no native_compute)',
    'hand-written models Model/Guard.v, Model/Checkers.v, Model/Rules.v, Model/Policy.v, Model/Parser.v, '
    'Model/Regex.v tied to /repo/vakt/{guard,checker,parser,policy}.py and rules/*.py by the guard_decision '
    'stream (Guard.is_allowed on a MemoryStorage vs `decide` evaluated by vm_compute)',
    'Base/PyVal.v operator semantics (validated by the C05 python_operators stream)',
    'segment regexes: the table mapping each segment source text to its AST is supplied by the generator '
    '(no regex parser in the model); Python re agrees with the AST semantics (C05 regex_semantics stream)',
]
ASSUME = ['effects / values with user-defined __eq__ are outside the universe']


def main(argv):
    return run_check('C01', [DecideStream(), StoreChangesStream()], argv, trusted_base=TRUSTED, assumptions=ASSUME,
                     translated=('guard', 'checker', 'parser', 'policy', 'on_generated', 'rules', 'subject', 'observable', 'memory',
                                 'pin_rules', 'pin_util'))


if __name__ == '__main__':
    sys.exit(main(sys.argv[1:]))
