"""User-defined rule classes used by the generators (importable, so that jsonpickle / pickle can restore them)."""
from vakt.rules.base import Rule


class BrokenRule(Rule):
    """satisfied raises the exception class named by `exc`"""

    def __init__(self, exc):
        self.exc = exc

    def satisfied(self, what, inquiry=None):
        from .specs import exc_class
        raise exc_class(self.exc)('injected')


class ConstRule(Rule):
    """satisfied returns a constant"""

    def __init__(self, value):
        self.value = value

    def satisfied(self, what, inquiry=None):
        return self.value


class Duck:
    """NOT a Rule: an unrelated object that merely has a method called `satisfied`"""

    def satisfied(self, what, inquiry=None):
        return True


class DuckChild(Duck):
    """inherits the method; still not a Rule"""


class TenantIs(Rule):
    """a caller-defined rule that looks at caller-defined state of the inquiry (an attribute a subclass of Inquiry carries)"""

    def __init__(self, tenant):
        self.tenant = tenant

    def satisfied(self, what, inquiry=None):
        return getattr(inquiry, 'tenant', None) == self.tenant
