"""Child process of the C15 check: runs operations on a file-backed SQLite database, reports after each one,
then waits to be killed."""
import json
import sys
import time


def other_view(url):
    from harness import storelib
    h = storelib.make_sqlite(url)
    try:
        return storelib.dump(h.storage)
    finally:
        h.close()


def run_ops(url, ops, upto):
    from harness import storelib
    h = storelib.make_sqlite(url)
    lines = []
    for k, o in enumerate(ops):
        r = storelib.do_op(h.storage, 'sqlite', o)
        lines.append('%s other=%s' % (r, other_view(url)))
        if k == upto:
            break
    return h, lines


if __name__ == '__main__':
    url, ops, upto = sys.argv[1], json.loads(sys.argv[2]), int(sys.argv[3])
    h, lines = run_ops(url, ops, upto)
    sys.stdout.write(json.dumps(lines) + '\n')
    sys.stdout.flush()
    time.sleep(600)          # the parent kills us here: session never closed, nothing more committed
