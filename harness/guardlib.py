"""Shared pieces of the guard-level checks (C01 C02 C04 C06 C16 C17)."""
from . import specs
from .core import e_list, e_pstr, s_bool, s_exc
from .specs import py, ev


def e_table(t):
    return e_list(['(%s, %s)' % (e_pstr(src), specs.e_rx(x)) for src, x in t], '(pstr * rx)')


def e_gcase(sc):
    return '{| g_ck := %s; g_table := %s; g_pols := %s; g_inq := %s |}' % (
        sc['checker'], e_table(sc['rxtable']),
        e_list([specs.e_policy(p) for p in sc['policies']], '(option policy)'),
        specs.e_inquiry(sc['inquiry']))


GUARD_IMPORTS = ('From Vakt Require Import Model.Regex Model.Rules Model.Policy Model.Checkers Model.Guard '
                 'Model.Audit Harness.RunGuard.')


def build(sc, cache_size=1024, audit_cls=None):
    from vakt.storage.memory import MemoryStorage
    from vakt.guard import Guard
    st = MemoryStorage()
    pols = [specs.mk_policy(p) for p in sc['policies']]
    for p in pols:
        st.add(p)
    ck = specs.mk_checker(sc['checker'], cache_size)
    g = Guard(st, ck, audit_cls) if audit_cls else Guard(st, ck)
    return g, st, ck, pols, specs.mk_inquiry(sc['inquiry'])


def decide_impl(sc):
    g, st, ck, pols, inq = build(sc)
    try:
        r = g.is_allowed(inq)
    except BaseException as e:  # noqa
        return s_exc(e)
    if r is True or r is False:
        return s_bool(r)
    return '<%r>' % (r,)


def match_vector(sc):
    """per stored policy: 'T' / 'F' / exception token, computed with the real checker, outside the guard"""
    from vakt.guard import Guard
    g, st, ck, pols, inq = build(sc)
    out = []
    for p in pols:
        try:
            m = (ck.fits(p, 'actions', inq.action, inq) and ck.fits(p, 'subjects', inq.subject, inq) and
                 ck.fits(p, 'resources', inq.resource, inq) and Guard.check_context_restriction(p, inq))
            out.append('T' if m else 'F')
        except Exception as e:  # noqa
            out.append(s_exc(e))
    return out, pols


def deny_overrides(sc):
    """the property statement recomputed: None when some evaluation raises (C02's case)"""
    mv, pols = match_vector(sc)
    if any(m not in ('T', 'F') for m in mv):
        return None
    matching = [p for p, m in zip(pols, mv) if m == 'T']
    return bool(matching) and all(p.effect == 'allow' for p in matching)


# ---------------------------------------------------------------------------------------------
# log capture
# ---------------------------------------------------------------------------------------------
import logging


class Capture(logging.Handler):
    def __init__(self):
        super().__init__(level=logging.DEBUG)
        self.records = []

    def emit(self, record):
        self.records.append(record)


class capture_logs:
    """context manager collecting records of the vakt.audit and vakt.guard loggers"""

    def __enter__(self):
        self.audit = Capture()
        self.guard = Capture()
        self.la = logging.getLogger('vakt.audit')
        self.lg = logging.getLogger('vakt.guard')
        self.saved = (self.la.level, self.lg.level, self.la.propagate, self.lg.propagate)
        self.la.setLevel(logging.DEBUG)
        self.lg.setLevel(logging.DEBUG)
        self.la.propagate = False
        self.lg.propagate = False
        self.la.addHandler(self.audit)
        self.lg.addHandler(self.guard)
        return self

    def __exit__(self, *a):
        self.la.removeHandler(self.audit)
        self.lg.removeHandler(self.guard)
        self.la.setLevel(self.saved[0])
        self.lg.setLevel(self.saved[1])
        self.la.propagate = self.saved[2]
        self.lg.propagate = self.saved[3]
        return False

    def decision_logs(self):
        out = []
        for r in self.guard.records:
            if r.levelno == logging.INFO and isinstance(r.msg, str):
                if r.msg.startswith('Incoming Inquiry was allowed'):
                    out.append('allowed')
                elif r.msg.startswith('Incoming Inquiry was rejected'):
                    out.append('rejected')
        return out


def snapshot_policy(p):
    return specs.s_any(vars(p))


def snapshot_inquiry(q):
    return specs.s_any(vars(q))
