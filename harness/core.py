"""Shared machinery of the checks: paths, Gallina emitters, the canonical
renderer (mirror of coq/Base/Show.v), the model runner (cases_*.v + coqc +
vm_compute), build/obligation checking, evidence and violation reporting."""
import fcntl
import hashlib
import json
import os
import re
import shutil
import subprocess
import sys
import time

VERIF = os.path.dirname(os.path.dirname(os.path.abspath(__file__)))
COQ = os.path.join(VERIF, 'coq')
REPO = os.environ.get('VAKT_REPO', '/repo')
WORK_ROOT = os.path.join(VERIF, '.work')
NCPU = min(16, os.cpu_count() or 4)


# ----------------------------------------------------------------------------
# Gallina emitters
# ----------------------------------------------------------------------------

def e_pstr(s):
    assert isinstance(s, str), s
    if not s:
        return '(@nil N)'
    return '([' + ';'.join(str(ord(c)) for c in s) + ']%N)'


def e_Z(z):
    return '(%d)%%Z' % z


def e_N(n):
    assert n >= 0
    return '%d%%N' % n


def e_nat(n):
    assert 0 <= n < 5000
    return '%d%%nat' % n


def e_bool(b):
    return 'true' if b else 'false'


def e_list(items, ty=None):
    if not items:
        return '(@nil %s)' % ty if ty else '[]'
    return '[' + '; '.join(items) + ']'


def e_option(x, f, ty=None):
    if x is None:
        return '(@None %s)' % ty if ty else 'None'
    return '(Some %s)' % f(x)


def float_dyadic(x):
    """finite float -> (m, j) with x == m / 2**j exactly"""
    import math
    assert math.isfinite(x)
    n, d = x.as_integer_ratio()
    j = d.bit_length() - 1
    assert d == 1 << j
    return n, j


def e_val(v):
    """Python value in the modelled universe -> Gallina `val` literal"""
    if v is None:
        return 'VNone'
    if v is True:
        return '(VBool true)'
    if v is False:
        return '(VBool false)'
    if isinstance(v, int):
        return '(VInt %s)' % e_Z(v)
    if isinstance(v, float):
        m, j = float_dyadic(v)
        return '(VFlt %s %s)' % (e_Z(m), e_N(j))
    if isinstance(v, str):
        return '(VStr %s)' % e_pstr(v)
    if isinstance(v, list):
        return '(VList %s)' % e_list([e_val(x) for x in v], 'val')
    if isinstance(v, tuple):
        return '(VTup %s)' % e_list([e_val(x) for x in v], 'val')
    if isinstance(v, dict):
        return '(VDict %s)' % e_list(['(%s, %s)' % (e_pstr(k), e_val(x)) for k, x in v.items()],
                                     '(pstr * val)')
    raise TypeError('value outside the modelled universe: %r' % (v,))


def in_universe(v):
    try:
        e_val(v)
        return True
    except (TypeError, AssertionError, OverflowError):
        return False


# ----------------------------------------------------------------------------
# canonical rendering (mirror of Base/Show.v)
# ----------------------------------------------------------------------------

_SAFE = set('abcdefghijklmnopqrstuvwxyzABCDEFGHIJKLMNOPQRSTUVWXYZ0123456789_')


def s_pstr(s):
    if all(c in _SAFE for c in s):
        return "'" + s
    return 's' + '.'.join(str(ord(c)) for c in s)


def s_bool(b):
    return 'T' if b else 'F'


def s_val(v):
    if v is None:
        return 'N'
    if v is True:
        return 'T'
    if v is False:
        return 'F'
    if isinstance(v, int):
        return 'i%d' % v
    if isinstance(v, float):
        m, j = float_dyadic(v)
        return 'f%d/%d' % (m, j)
    if isinstance(v, str):
        return s_pstr(v)
    if isinstance(v, list):
        return '[' + ','.join(s_val(x) for x in v) + ']'
    if isinstance(v, tuple):
        return '(' + ','.join(s_val(x) for x in v) + ')'
    if isinstance(v, dict):
        return '{' + ','.join(s_pstr(k) + ':' + s_val(x) for k, x in v.items()) + '}'
    raise TypeError(v)


KNOWN_EXC = ['TypeError', 'KeyError', 'ValueError', 'IndexError', 'AttributeError', 'RuntimeError',
             'PolicyExistsError', 'PolicyCreationError', 'InvalidPatternError', 'Irreversible',
             'UnknownCheckerType']


EXTRA_EXC = {'StopIteration': 901, 'StopAsyncIteration': 902, 'ArithmeticError': 903, 'ZeroDivisionError': 904,
             'LookupError': 905, 'OSError': 906, 'AssertionError': 907, 'RecursionError': 908, 'UnicodeError': 909,
             'NotImplementedError': 910, 'BufferError': 911, 'EOFError': 912, 'MemoryError': 913}
EXTRA_BASE = {'GeneratorExit': 901, 'KeyboardInterrupt': 902, 'SystemExit': 903}


def s_exc(e):
    """an exception instance -> the model's token for its class"""
    name = type(e).__name__
    m = re.fullmatch(r'Custom(\d+)', name)
    if m:
        return 'E:Custom' + m.group(1)
    m = re.fullmatch(r'Base(\d+)', name)
    if m:
        return 'B:Base' + m.group(1)
    if name in KNOWN_EXC:
        return 'E:' + name
    if name in EXTRA_EXC:
        return 'E:Custom%d' % EXTRA_EXC[name]
    if name in EXTRA_BASE:
        return 'B:Base%d' % EXTRA_BASE[name]
    if name == 'Exception':
        return 'E:Exception'
    if isinstance(e, Exception):
        return 'E:?' + name
    return 'B:?' + name


def fatal(e):
    """an exception the harness itself must not swallow (a MemoryError a generated rule raises on purpose is data)"""
    if isinstance(e, MemoryError):
        return e.args != ('injected',)
    return isinstance(e, (KeyboardInterrupt, SystemExit))


def run_py(fn, show=str):
    """run fn(), render result or exception token"""
    try:
        return show(fn())
    except BaseException as e:  # noqa
        if fatal(e):
            raise
        return s_exc(e)


# ----------------------------------------------------------------------------
# build and obligations
# ----------------------------------------------------------------------------

class BuildError(Exception):
    def __init__(self, what, log):
        super().__init__(what)
        self.what = what
        self.log = log


def _lock():
    os.makedirs(WORK_ROOT, exist_ok=True)
    f = open(os.path.join(WORK_ROOT, 'build.lock'), 'w')
    fcntl.flock(f, fcntl.LOCK_EX)
    return f


def ensure_built(timeout=1500):
    """full .vo build of coq/ (a no-op when up to date), serialised by a lock"""
    lk = _lock()
    try:
        if not os.path.exists(os.path.join(COQ, 'Makefile')):
            subprocess.run(['coq_makefile', '-f', '_CoqProject', '-o', 'Makefile'], cwd=COQ,
                           check=True, stdout=subprocess.DEVNULL)
        p = subprocess.run(['timeout', str(timeout), 'make', '-j%d' % NCPU], cwd=COQ,
                           stdout=subprocess.PIPE, stderr=subprocess.STDOUT, text=True)
        if p.returncode != 0:
            raise BuildError('make of coq/ failed', p.stdout[-4000:])
    finally:
        lk.close()


FORBIDDEN = re.compile(r'\b(Admitted|admit|Axiom|Parameter|Parameters|Conjecture|Axioms|'
                       r'Admit Obligations|Unset Guard Checking|bypass_check|Unset Universe Checking|'
                       r'Unset Positivity Checking)\b')
ALLOWED_AXIOMS = set()      # nothing beyond the kernel; see DESIGN.md section 8


def strip_coq_comments(src):
    out, depth, i = [], 0, 0
    while i < len(src):
        if src.startswith('(*', i):
            depth += 1
            i += 2
        elif src.startswith('*)', i) and depth:
            depth -= 1
            i += 2
        else:
            if not depth:
                out.append(src[i])
            i += 1
    return ''.join(out)


def forbidden_scan():
    """grep the whole development for escape hatches; returns list of (file, token)"""
    bad = []
    for root, _, files in os.walk(COQ):
        for fn in files:
            if fn.endswith('.v'):
                p = os.path.join(root, fn)
                src = strip_coq_comments(open(p).read())
                src = re.sub(r'"[^"]*"', '""', src)
                for m in FORBIDDEN.finditer(src):
                    bad.append((os.path.relpath(p, COQ), m.group(1)))
                # top-level Variable/Hypothesis outside a section
                depth = 0
                for line in src.split('\n'):
                    t = line.strip()
                    if re.match(r'Section\b', t):
                        depth += 1
                    elif re.match(r'End\b', t) and depth:
                        depth -= 1
                    elif depth == 0 and re.match(r'(Variable|Variables|Hypothesis|Hypotheses|Context)\b', t):
                        bad.append((os.path.relpath(p, COQ), t.split()[0] + ' outside section'))
    proj = open(os.path.join(COQ, '_CoqProject')).read()
    for tok in ('-type-in-type', '-impredicative-set', '-vos', '-native'):
        if tok in proj:
            bad.append(('_CoqProject', tok))
    return bad


def coqc(vfile, cwd=None, timeout=600, extra=()):
    cmd = ['timeout', str(timeout), 'coqc', '-q', '-R', COQ, 'Vakt',
           '-w', '-notation-overridden,-deprecated-hint-without-locality,-deprecated-instance-without-locality']
    cmd += list(extra) + [vfile]
    return subprocess.run(cmd, cwd=cwd, stdout=subprocess.PIPE, stderr=subprocess.PIPE, text=True)


def check_props(prop):
    """re-check coq/Props/<prop>.v; parse every Print Assumptions.
    returns dict(obligations, discharged, theorems, axioms, log)"""
    src_path = os.path.join(COQ, 'Props', prop + '.v')
    src = strip_coq_comments(open(src_path).read())
    theorems = re.findall(r'^\s*(?:Theorem|Corollary)\s+(\w+)', src, flags=re.M)
    prints = re.findall(r'Print Assumptions\s+(\w+)', src)
    missing = [t for t in theorems if t not in prints]
    work = workdir(prop + '-props')
    try:
        dst = os.path.join(work, prop + '_recheck.v')
        shutil.copy(src_path, dst)
        p = coqc(dst, cwd=work)
        out = p.stdout
        if p.returncode != 0:
            return dict(obligations=len(theorems), discharged=0, theorems=theorems, axioms=[],
                        ok=False, log=(p.stdout + p.stderr)[-3000:])
        closed = out.count('Closed under the global context')
        axioms = []
        for blk in re.findall(r'Axioms:\n((?:.+\n)+?)(?=\S|\Z)', out):
            for line in blk.split('\n'):
                m = re.match(r'^(\S+)\s*:', line)
                if m:
                    axioms.append(m.group(1))
        bad_ax = [a for a in axioms if a not in ALLOWED_AXIOMS]
        ok = (not missing) and (not bad_ax) and closed + (1 if axioms and not bad_ax else 0) >= len(prints)
        return dict(obligations=len(theorems), discharged=closed if ok else min(closed, len(theorems) - 1),
                    theorems=theorems, axioms=sorted(set(axioms)), ok=ok,
                    log='' if ok else 'missing Print Assumptions: %s; axioms: %s\n%s' % (missing, bad_ax, out[-2000:]))
    finally:
        shutil.rmtree(work, ignore_errors=True)


# ----------------------------------------------------------------------------
# model runner
# ----------------------------------------------------------------------------

def workdir(tag):
    d = os.path.join(WORK_ROOT, '%s-%d-%d' % (tag, os.getpid(), int(time.time() * 1000) % 100000000))
    os.makedirs(d, exist_ok=True)
    return d


HEADER = """From Coq Require Import ZArith NArith List Bool String.
From Vakt Require Import Base.PyMonad Base.PyVal Base.Show.
%s
Import ListNotations.
Local Open Scope list_scope.
"""


def run_model(tag, imports, case_type, run_fn, cases, shard=250, timeout=900, prelude=''):
    """evaluate `run_fn` (Gallina, case_type -> string) on every case literal, inside Coq.
    returns one result string per case."""
    if not cases:
        return []
    work = workdir(tag)
    try:
        files = []
        for k in range(0, len(cases), shard):
            name = 'cases_%d.v' % (k // shard)
            with open(os.path.join(work, name), 'w') as f:
                f.write(HEADER % imports)
                f.write(prelude + '\n')
                f.write('Definition cases : list (%s) :=\n  [ ' % case_type)
                f.write('\n  ; '.join(cases[k:k + shard]))
                f.write(' ].\n')
                f.write('Eval vm_compute in (map (%s) cases).\n' % run_fn)
            files.append(name)
        procs = []
        results = {}
        pending = list(files)
        running = []
        while pending or running:
            while pending and len(running) < NCPU:
                fn = pending.pop(0)
                cmd = ['bash', '-c', 'ulimit -s 2000000 2>/dev/null; '
                       'exec timeout %d coqc -q -noglob -R %s Vakt -w -all %s' % (timeout, COQ, fn)]
                pr = subprocess.Popen(cmd, cwd=work, stdout=subprocess.PIPE, stderr=subprocess.PIPE, text=True)
                running.append((fn, pr))
            fn, pr = running.pop(0)
            out, err = pr.communicate()
            if pr.returncode == 124:
                # the shard ran out of time: some case is too expensive for the model as it is written (e.g. a regular
                # expression with nested repetition against a long value blows the derivative up).  Find it; a case
                # the model cannot evaluate in time is outside the modelled universe (skipped and counted), the rest
                # of the shard is still compared.
                k0 = int(fn[len('cases_'):-2]) * shard
                results[fn] = _eval_slow_shard(work, imports, prelude, case_type, run_fn, cases[k0:k0 + shard])
                continue
            if pr.returncode != 0:
                raise BuildError('model evaluation failed for %s' % fn,
                                 (err or out)[-3000:] + '\n--- see ' + os.path.join(work, fn))
            results[fn] = parse_eval(out)
        out = []
        for k, fn in enumerate(files):
            n = len(cases[k * shard:(k + 1) * shard])
            r = results[fn]
            if len(r) != n:
                raise BuildError('model printed %d results for %d cases in %s' % (len(r), n, fn), '')
            out.extend(r)
        shutil.rmtree(work, ignore_errors=True)
        return out
    except BuildError:
        raise


def _eval_cases(work, imports, prelude, case_type, run_fn, lits, timeout, name):
    with open(os.path.join(work, name), 'w') as f:
        f.write(HEADER % imports)
        f.write(prelude + '\n')
        f.write('Definition cases : list (%s) :=\n  [ ' % case_type)
        f.write('\n  ; '.join(lits))
        f.write(' ].\n')
        f.write('Eval vm_compute in (map (%s) cases).\n' % run_fn)
    cmd = ['bash', '-c', 'ulimit -s 2000000 2>/dev/null; exec timeout %d coqc -q -noglob -R %s Vakt -w -all %s' % (timeout, COQ, name)]
    pr = subprocess.run(cmd, cwd=work, stdout=subprocess.PIPE, stderr=subprocess.PIPE, text=True)
    if pr.returncode == 124:
        return None
    if pr.returncode != 0:
        raise BuildError('model evaluation failed for %s' % name, (pr.stderr or pr.stdout)[-3000:])
    r = parse_eval(pr.stdout)
    if len(r) != len(lits):
        raise BuildError('model printed %d results for %d cases in %s' % (len(r), len(lits), name), '')
    return r


def _eval_slow_shard(work, imports, prelude, case_type, run_fn, lits):
    out = []
    for a in range(0, len(lits), 25):
        chunk = lits[a:a + 25]
        r = _eval_cases(work, imports, prelude, case_type, run_fn, chunk, 120, 'slow_%d.v' % a)
        if r is None:
            r = []
            for j, lit in enumerate(chunk):
                one = _eval_cases(work, imports, prelude, case_type, run_fn, [lit], 40, 'slow_%d_%d.v' % (a, j))
                r.append(one[0] if one is not None else 'UNMODELLED model-evaluation-timeout')
        out.extend(r)
    return out


_STR_LIT = re.compile(r'"((?:[^"]|"")*)"')


def parse_eval(out):
    """the list of string literals Coq prints for `Eval vm_compute in (map run cases)`"""
    i = out.find('= [')
    j = out.rfind(': list string')
    if i < 0 or j < 0:
        raise BuildError('cannot parse model output', out[-1000:])
    return [m.group(1).replace('""', '"') for m in _STR_LIT.finditer(out[i:j])]


# ----------------------------------------------------------------------------
# evidence, violations, known findings
# ----------------------------------------------------------------------------

def load_known():
    """KNOWN_FINDINGS.txt -> list of dict(status, property, id, what, commit)"""
    p = os.path.join(VERIF, 'KNOWN_FINDINGS.txt')
    out = []
    if os.path.exists(p):
        for line in open(p):
            line = line.strip()
            if not line or line.startswith('#'):
                continue
            m = re.match(r'known: property=(\S+) id=(\S+) (.*)$', line)
            if m:
                out.append({'status': 'known', 'property': m.group(1), 'id': m.group(2), 'what': m.group(3)})
                continue
            m = re.match(r'fixed: property=(\S+) (\S+) (.*)$', line)
            if m:
                out.append({'status': 'fixed', 'property': m.group(1), 'commit': m.group(2), 'what': m.group(3),
                            'id': None})
    return out


def digest(obj):
    return hashlib.sha1(json.dumps(obj, sort_keys=True, default=repr).encode()).hexdigest()[:12]


def write_replay(prop, payload):
    os.makedirs(os.path.join(VERIF, 'replays'), exist_ok=True)
    path = os.path.join(VERIF, 'replays', '%s-%s.json' % (prop, digest(payload)))
    with open(path, 'w') as f:
        json.dump(payload, f, indent=1, default=repr, ensure_ascii=True)
    return os.path.relpath(path, VERIF)


def write_evidence(prop, ev):
    os.makedirs(os.path.join(VERIF, 'evidence'), exist_ok=True)
    with open(os.path.join(VERIF, 'evidence', prop + '.json'), 'w') as f:
        json.dump(ev, f, indent=1, default=repr, ensure_ascii=True)


def log(*a):
    print(*a, file=sys.stderr, flush=True)
