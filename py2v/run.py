"""Translate the scheduled vakt functions from the current source and check the generated definitions and their
equivalence lemmas (coq/Equiv/<Module>E.v: generated definition = hand-written model definition).

   python -m py2v.run [--repo /repo] [--keep DIR] [module ...]

As a library: obligations(modules, repo) -> (n_obligations, n_discharged, [messages about the broken ones]).
The generated files are compiled in a scratch directory (logical root VaktGen) against the built coq/ tree, so the
shared build is never touched by a run against some other copy of the repository.
"""
import os
import re
import shutil
import subprocess
import sys
import tempfile

from . import core, schemas

VERIF = os.path.dirname(os.path.dirname(os.path.abspath(__file__)))
COQ = os.path.join(VERIF, 'coq')


def _coqc(workdir, fname, timeout=300):
    cmd = 'ulimit -s 2000000 2>/dev/null; exec timeout %d coqc -q -R %s Vakt -R %s VaktGen %s' % (
        timeout, COQ, workdir, fname)
    p = subprocess.run(['bash', '-c', cmd], cwd=workdir, stdout=subprocess.PIPE, stderr=subprocess.STDOUT, text=True)
    return p.returncode, p.stdout


def lemma_names(text):
    return re.findall(r'^\s*(?:Lemma|Theorem|Corollary)\s+(\w+)', text, flags=re.M)


def check_pins(name, repo):
    """pin areas: whole source files whose functions the hand-written models and the correspondence streams were
    validated against; any edited, added or removed function is reported (logging and docstrings aside)"""
    import json
    snap = json.load(open(os.path.join(os.path.dirname(os.path.abspath(__file__)), 'pins.json')))[name]
    out = []
    for rel in sorted(snap):
        try:
            now = core.snapshot_file(repo, rel)
        except (SyntaxError, OSError) as e:
            out.append(('pinned source %s' % rel, False, '%s: %s' % (type(e).__name__, e)))
            continue
        want = snap[rel]
        diffs = ['%s changed: now %r' % (k, now[k][:160]) for k in sorted(want) if k in now and now[k] != want[k]]
        diffs += ['%s removed' % k for k in sorted(want) if k not in now]
        diffs += ['%s added: %r' % (k, now[k][:160]) for k in sorted(now) if k not in want]
        out.append(('pinned source %s (%d definitions)' % (rel, len(want)), not diffs, '; '.join(diffs[:4])))
    return out


def check_module(name, repo, workdir):
    """-> list of (obligation name, ok, message)"""
    if name in schemas.PIN_AREAS:
        return check_pins(name, repo)
    if name in schemas.EQUIV_ONLY:
        return check_equiv(schemas.EQUIV_ONLY[name], workdir)
    mod = schemas.MODULES[name]
    out = []
    gen_file = os.path.join(workdir, mod['module'] + '.v')
    try:
        text = core.translate_module(repo, mod, schemas.HEADER)
    except core.Unsupported as e:
        out.append(('translate %s' % mod['path'], False, 'source left the translated subset / leaf table: %s' % e))
        return out
    except (SyntaxError, OSError) as e:
        out.append(('translate %s' % mod['path'], False, '%s: %s' % (type(e).__name__, e)))
        return out
    open(gen_file, 'w').write(text)
    out.append(('translate %s' % mod['path'], True, ''))
    rc, log = _coqc(workdir, mod['module'] + '.v')
    out.append(('typecheck VaktGen.%s' % mod['module'], rc == 0, log[-1500:]))
    if rc != 0:
        return out
    return out + check_equiv(mod['module'] + 'E', workdir)


def check_equiv(fname, workdir):
    """compile coq/Equiv/<fname>.v against the generated modules in workdir; one obligation per lemma"""
    out = []
    eq_src = os.path.join(COQ, 'Equiv', fname + '.v')
    eq_text = open(eq_src).read()
    bad = [t for t in ('Admitted', 'admit', 'Axiom', 'Parameter', 'Conjecture', 'Unset Guard', 'bypass_check')
           if re.search(r'\b%s\b' % t, re.sub(r'\(\*.*?\*\)', '', eq_text, flags=re.S))]
    shutil.copy(eq_src, os.path.join(workdir, fname + '.v'))
    rc, log = _coqc(workdir, fname + '.v')
    names = lemma_names(eq_text)
    closed = log.count('Closed under the global context')
    want_closed = len(re.findall(r'^\s*Print Assumptions', eq_text, flags=re.M))
    ok = rc == 0 and not bad and closed == want_closed
    msg = '' if ok else ('forbidden %r ' % bad if bad else '') + log[-1500:]
    for n in names:
        out.append(('equivalence %s.%s' % (fname, n), ok, msg))
    return out


def expand(modules):
    """modules plus the modules their generated files import, dependencies first"""
    out = []

    def add(m):
        for d in getattr(schemas, 'DEPENDS', {}).get(m, []):
            add(d)
        if m not in out:
            out.append(m)
    for m in modules:
        add(m)
    return out


def obligations(modules, repo=None):
    repo = repo or os.environ.get('VAKT_REPO', '/repo')
    os.makedirs(os.path.join(VERIF, '.work'), exist_ok=True)
    work = tempfile.mkdtemp(prefix='py2v-', dir=os.path.join(VERIF, '.work'))
    try:
        res = []
        for m in expand(modules):
            res += check_module(m, repo, work)
        broken = ['%s: %s' % (n, msg) for n, ok, msg in res if not ok]
        return len(res), sum(1 for _, ok, _ in res if ok), broken
    finally:
        shutil.rmtree(work, ignore_errors=True)


def main(argv):
    repo = os.environ.get('VAKT_REPO', '/repo')
    keep = None
    mods = []
    args = list(argv)
    while args:
        a = args.pop(0)
        if a == '--repo':
            repo = args.pop(0)
        elif a == '--keep':
            keep = args.pop(0)
        else:
            mods.append(a)
    mods = mods or (list(schemas.MODULES) + list(schemas.EQUIV_ONLY) + list(schemas.PIN_AREAS))
    if keep:
        os.makedirs(keep, exist_ok=True)
        rc = 0
        for m in expand(mods):
            for n, ok, msg in check_module(m, repo, keep):
                print('%-60s %s' % (n, 'ok' if ok else 'BROKEN'))
                if not ok:
                    print('    ' + msg.replace('\n', '\n    '))
                    rc = 1
        return rc
    o, d, broken = obligations(mods, repo)
    print('py2v: %d/%d obligations' % (d, o))
    for b in broken:
        print('BROKEN ' + b)
    return 0 if not broken else 1


if __name__ == '__main__':
    sys.exit(main(sys.argv[1:]))
