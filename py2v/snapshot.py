"""development tool: (re)write py2v/pins.json from a repository the models were validated against.
   python -m py2v.snapshot [repo]      -- never run by a check"""
import json
import os
import sys

from . import core, schemas


def main(argv):
    repo = argv[0] if argv else '/repo'
    snap = {area: {rel: core.snapshot_file(repo, rel) for rel in files} for area, files in schemas.PIN_AREAS.items()}
    path = os.path.join(os.path.dirname(os.path.abspath(__file__)), 'pins.json')
    json.dump(snap, open(path, 'w'), indent=1, sort_keys=True)
    print('wrote', path, sum(len(v) for a in snap.values() for v in a.values()), 'definitions')


if __name__ == '__main__':
    main(sys.argv[1:])
