"""Leaf tables for vakt/rules/*.py: every built-in rule's `satisfied` (and the constructors that validate their
arguments).  Recursive calls (`x.satisfied(...)` of a member rule) go through the section variable sat_rec;
Equiv/RulesGE.v proves that the model's `sat` is the unique solution of the generated equations.
"""
from .schemas_common import EXC

_U = [('unused', 'unit', 'tt')]
_VB = {'ret_type': 'bool', 'finish': 'Ok (VBool r__)'}
_TFV = {'True': ('pure', '(VBool true)'), 'False': ('pure', '(VBool false)')}

OP = 'vakt/rules/operator.py'
LS = 'vakt/rules/list.py'
LG = 'vakt/rules/logic.py'
SR = 'vakt/rules/string.py'
IQ = 'vakt/rules/inquiry.py'
NT = 'vakt/rules/net.py'


def _eqlike(cls, name, op, gal):
    return {
        'path': OP, 'qualname': cls + '.satisfied', 'name': name, 'prefix': name,
        'params': '(self_val what : val)', 'returns': 'val',
        'locals': [('val', 'val', 'VNone')],
        'leaves': {
            'isinstance(self.val, tuple)': ('cond', '(is_tuple self_val)'),
            'list(self.val)': ('pure', '(match self_val with VTup l_ => VList l_ | _ => self_val end)'),
            'self.val': ('pure', 'self_val'),
            'val %s what' % op: ('pure', gal),
        },
        'exceptions': EXC,
    }


def _cmp(cls, name, src, gal):
    return {
        'path': OP, 'qualname': cls + '.satisfied', 'name': name, 'prefix': name,
        'params': '(self_val what : val)', 'returns': 'val', 'locals': _U,
        'leaves': {src: ('res', '(rmap VBool %s)' % gal)},
        'exceptions': EXC,
    }


def _listrule(cls, name, body_leaves, negate_typecheck=True):
    leaves = {'isinstance(what, list)': ('cond', '(is_list what)')} if negate_typecheck else {}
    leaves.update(body_leaves)
    d = {
        'path': LS, 'qualname': cls + '.satisfied', 'name': name, 'prefix': name,
        'params': '(self_data : list val) (what : val)', 'returns': 'val', 'locals': _U,
        'leaves': leaves, 'exceptions': EXC,
    }
    d.update(_VB)
    return d


def _both(text):
    return {'value': ('res', text), 'cond': ('condM', text)}


def _strrule(cls, name, ci_src, cs_src, fn):
    return {
        'path': SR, 'qualname': cls + '.satisfied', 'name': name, 'prefix': name,
        'params': '(self_val : pstr) (self_ci : bool) (what : val)', 'returns': 'val', 'locals': _U,
        'leaves': {
            'isinstance(what, str)': ('cond', '(is_str what)'),
            'self.ci': ('cond', 'self_ci'),
            ci_src: ('pure', '(VBool (%s))' % (fn % {'v': '(lower self_val)', 'w': '(lower (str_val what))'})),
            cs_src: ('pure', '(VBool (%s))' % (fn % {'v': 'self_val', 'w': '(str_val what)'})),
            'False': ('pure', '(VBool false)'),
        },
        'exceptions': EXC,
    }


def _inq_and(cls, name, src, gal):
    return {
        'path': IQ, 'qualname': cls + '.satisfied', 'name': name, 'prefix': name,
        'params': '(what : val) (inquiry : option inquiry)', 'returns': 'val', 'locals': _U,
        # `a and b and c` returns the first falsy operand: None when there is no inquiry
        'leaves': {src: ('pure', '(match inquiry with None => VNone | Some q_ => VBool (%s) end)' % gal)},
        'exceptions': EXC,
    }


RULES = {
    'path': LG,
    'module': 'RulesG',
    'imports': 'From Vakt Require Import Model.Net.',
    'prelude': '''
Definition str_val (v : val) : pstr := match v with VStr t => t | _ => [] end.
Definition list_val (v : val) : list val := match v with VList l => l | _ => [] end.
(* len(p) and p[k] for the values PairsEqual may meet (k is 0 or 1, reached only when len(p) == 2) *)
Definition py_len (p : val) : res nat :=
  match p with
  | VList l | VTup l => Ok (length l)
  | VStr s => Ok (length s)
  | VDict d => Ok (length d)
  | _ => Raise ETypeError
  end.
Definition py_index (p : val) (k : nat) : res val :=
  match p with
  | VList l | VTup l => match nth_error l k with Some x => Ok x | None => Raise EIndexError end
  | VStr s => match nth_error s k with Some c => Ok (VStr [c]) | None => Raise EIndexError end
  | VDict _ => Raise EKeyError          (* keys are strings; 0 and 1 are not among them *)
  | _ => Raise ETypeError
  end.
Definition val_error (o : option ipaddr) : res ipaddr := match o with Some a => Ok a | None => Raise EValueError end.
Definition val_error_n (o : option ipnet) : res ipnet := match o with Some a => Ok a | None => Raise EValueError end.

Section rules.
  (* <member>.satisfied(what, inquiry): dynamic dispatch on the member rule *)
  Variable sat_rec : rule -> val -> option inquiry -> res val.
''',
    'epilogue': 'End rules.\n',
    'pinned': {
        (LG, 'Truthy.val'): '@property def val(self): return True',
        (LG, 'Falsy.val'): '@property def val(self): return False',
        (IQ, 'SubjectMatch._field_name'): "def _field_name(self): return 'subject'",
        (IQ, 'ActionMatch._field_name'): "def _field_name(self): return 'action'",
        (IQ, 'ResourceMatch._field_name'): "def _field_name(self): return 'resource'",
        (IQ, 'InquiryMatchAbstract.__init__'): 'def __init__(self, attribute=None): self.attribute = attribute',
        (NT, 'CIDR.__init__'): 'def __init__(self, cidr): self.cidr = cidr',
        (OP, 'OperatorRule.__init__'): 'def __init__(self, val): self.val = val',
    },
    'functions': [
        # ---------------- operator.py
        _eqlike('Eq', 'eq_satisfied', '==', '(VBool (py_eq {val} what))'),
        _eqlike('NotEq', 'noteq_satisfied', '!=', '(VBool (negb (py_eq {val} what)))'),
        _cmp('Greater', 'greater_satisfied', 'what > self.val', '(py_lt self_val what)'),
        _cmp('Less', 'less_satisfied', 'what < self.val', '(py_lt what self_val)'),
        _cmp('GreaterOrEqual', 'ge_satisfied', 'what >= self.val', '(py_le self_val what)'),
        _cmp('LessOrEqual', 'le_satisfied', 'what <= self.val', '(py_le what self_val)'),
        # ---------------- list.py
        {
            'path': LS, 'qualname': 'ListRule.__init__', 'name': 'listrule_init', 'prefix': 'li',
            'params': '(args : list val)', 'returns': 'list val',
            'locals': [('data', 'list val', '[]')],
            'stmts': {'self.data = set(args)': ('setM', ('data', '(to_set args)'))},
            'falloff': 'Ok {data}', 'exceptions': EXC,
        },
        {
            'path': LS, 'qualname': '_one_in_list', 'name': 'one_in_list', 'prefix': 'oil',
            'params': '(what : val) (data : list val)', 'returns': 'bool', 'locals': _U,
            'leaves': {'what in data': ('condM', '(py_in_set what data)')}, 'exceptions': EXC,
        },
        {
            'path': LS, 'qualname': '_all_in_list', 'name': 'all_in_list', 'prefix': 'ail',
            'params': '(what : val) (data : list val)', 'returns': 'bool', 'locals': _U,
            'leaves': {'set(what).issubset(data)':
                       ('condM', '(bind (to_set (list_val what)) (fun s_ => Ok (forallb (fun x_ => mem_val x_ data) s_)))')},
            'exceptions': EXC,
        },
        {
            'path': LS, 'qualname': '_any_in_list', 'name': 'any_in_list', 'prefix': 'nil',
            'params': '(what : val) (data : list val)', 'returns': 'bool', 'locals': _U,
            'leaves': {'bool(data.intersection(set(what)))':
                       ('condM', '(bind (to_set (list_val what)) (fun s_ => Ok (existsb (fun x_ => mem_val x_ data) s_)))')},
            'exceptions': EXC,
        },
        _listrule('In', 'in_satisfied', {'_one_in_list(what, self.data)': _both('(one_in_list what self_data)')}, False),
        _listrule('NotIn', 'notin_satisfied', {'_one_in_list(what, self.data)': _both('(one_in_list what self_data)')}, False),
        _listrule('AllIn', 'allin_satisfied', {'_all_in_list(what, self.data)': _both('(all_in_list what self_data)')}),
        _listrule('AllNotIn', 'allnotin_satisfied', {'_all_in_list(what, self.data)': _both('(all_in_list what self_data)')}),
        _listrule('AnyIn', 'anyin_satisfied', {'_any_in_list(what, self.data)': _both('(any_in_list what self_data)')}),
        _listrule('AnyNotIn', 'anynotin_satisfied', {
            'bool(set(what).difference(self.data))':
                _both('(bind (to_set (list_val what)) (fun s_ => Ok (existsb (fun x_ => negb (mem_val x_ self_data)) s_)))')}),
        # ---------------- logic.py
        {
            'path': LG, 'qualname': 'BooleanRule.satisfied', 'name': 'boolean_satisfied', 'prefix': 'bs',
            'params': '(self_val : bool) (what : val)', 'returns': 'val',
            'locals': [('res', 'val', 'VNone')],
            'leaves': {
                # no value of the model's domain is callable
                'what() if callable(what) else what': ('pure', 'what'),
                'bool(res) == self.val': ('pure', '(VBool (Bool.eqb (truthy {res}) self_val))'),
            },
            'exceptions': EXC,
        },
        {
            'path': LG, 'qualname': 'CompositionRule.__init__', 'name': 'composition_init', 'prefix': 'ci',
            'params': '(rules : list rule)', 'returns': 'list rule',
            'locals': [('r', 'rule', 'RAny'), ('self_rules', 'list rule', '[]')],
            'targets': {'r': ('r_', [('r', 'r_')])},
            'leaves': {'rules': ('pure', 'rules'), 'isinstance(r, Rule)': ('cond', '(is_rule {r})')},
            'stmts': {'self.rules = rules': ('set', [('self_rules', 'rules')])},
            'falloff': 'Ok {self_rules}', 'exceptions': EXC,
        },
        dict({
            'path': LG, 'qualname': 'And.satisfied', 'name': 'and_satisfied', 'prefix': 'as_',
            'params': '(self_rules : list rule) (what : val) (inquiry : option inquiry)', 'returns': 'val',
            'locals': [('answers', 'list val', '[]')],
            'leaves': {
                'self.rules': ('pure', 'self_rules'),
                'x.satisfied(what, inquiry)': ('res', '(sat_rec x what inquiry)'),
                'len(answers) > 0': ('cond', '(negb (is_nil {answers}))'),
                'all(answers)': ('cond', '(forallb truthy {answers})'),
            },
            'exceptions': EXC,
        }, **_VB),
        {
            'path': LG, 'qualname': 'Or.satisfied', 'name': 'or_satisfied', 'prefix': 'os_',
            'params': '(self_rules : list rule) (what : val) (inquiry : option inquiry)', 'returns': 'val',
            'locals': [('rule', 'rule', 'RAny')],
            'targets': {'rule': ('rule_', [('rule', 'rule_')])},
            'leaves': dict(_TFV, **{
                'self.rules': ('pure', 'self_rules'),
                'rule.satisfied(what, inquiry)': ('condM', '(rmap truthy (sat_rec {rule} what inquiry))'),
            }),
            'exceptions': EXC,
        },
        {
            'path': LG, 'qualname': 'Not.__init__', 'name': 'not_init', 'prefix': 'ni',
            'params': '(rule : Rules.rule)', 'returns': 'Rules.rule',
            'locals': [('self_rule', 'Rules.rule', 'RAny')],
            'leaves': {'isinstance(rule, Rule)': ('cond', '(is_rule rule)')},
            'stmts': {'self.rule = rule': ('set', [('self_rule', 'rule')])},
            'falloff': 'Ok {self_rule}', 'exceptions': EXC,
        },
        dict({
            'path': LG, 'qualname': 'Not.satisfied', 'name': 'not_satisfied', 'prefix': 'ns',
            'params': '(self_rule : rule) (what : val) (inquiry : option inquiry)', 'returns': 'val', 'locals': _U,
            'leaves': {'self.rule.satisfied(what, inquiry)': ('condM', '(rmap truthy (sat_rec self_rule what inquiry))')},
            'exceptions': EXC,
        }, **_VB),
        {
            'path': LG, 'qualname': 'Any.satisfied', 'name': 'any_satisfied', 'prefix': 'any_',
            'params': '(what : val)', 'returns': 'val', 'locals': _U, 'leaves': {'True': ('pure', '(VBool true)')},
            'exceptions': EXC,
        },
        {
            'path': LG, 'qualname': 'Neither.satisfied', 'name': 'neither_satisfied', 'prefix': 'nei',
            'params': '(what : val)', 'returns': 'val', 'locals': _U, 'leaves': {'False': ('pure', '(VBool false)')},
            'exceptions': EXC,
        },
        # ---------------- string.py
        {
            'path': SR, 'qualname': 'StringRule.__init__', 'name': 'stringrule_init', 'prefix': 'si',
            'params': '(val : val) (ci : bool)', 'returns': 'pstr * bool',
            'locals': [('self_val', 'pstr', '[]'), ('self_ci', 'bool', 'false')],
            'leaves': {'isinstance(val, str)': ('cond', '(is_str val)')},
            'stmts': {'self.val = val': ('set', [('self_val', '(str_val val)')]),
                      'self.ci = ci': ('set', [('self_ci', 'ci')])},
            'falloff': 'Ok ({self_val}, {self_ci})', 'exceptions': EXC,
        },
        _strrule('Equal', 'equal_satisfied', 'what.lower() == self.val.lower()', 'what == self.val',
                 'pstr_eqb %(w)s %(v)s'),
        dict({
            'path': SR, 'qualname': 'PairsEqual.satisfied', 'name': 'pairsequal_satisfied', 'prefix': 'pe',
            'params': '(what : val)', 'returns': 'val',
            'locals': [('pair', 'val', 'VNone')],
            'targets': {'pair': ('pair_', [('pair', 'pair_')])},
            'leaves': dict({'True': ('pure', 'true'), 'False': ('pure', 'false')}, **{
                'isinstance(what, list)': ('cond', '(is_list what)'),
                'what': ('pure', '(list_val what)'),
                'len(pair) != 2': ('condM', '(rmap (fun n_ => negb (Nat.eqb n_ 2)) (py_len {pair}))'),
                'isinstance(pair[0], str)': ('condM', '(rmap is_str (py_index {pair} 0))'),
                'isinstance(pair[1], str)': ('condM', '(rmap is_str (py_index {pair} 1))'),
                'pair[0] != pair[1]':
                    ('condM', '(bind (py_index {pair} 0) (fun a_ => bind (py_index {pair} 1) (fun b_ => Ok (negb (py_eq a_ b_)))))'),
            }),
            'exceptions': EXC,
        }, **_VB),
        {
            'path': SR, 'qualname': 'RegexMatch.satisfied', 'name': 'regexmatch_satisfied', 'prefix': 'rm',
            'params': '(self_regex : rx) (what : val)', 'returns': 'val', 'locals': _U,
            'leaves': {'bool(self.regex.match(str(what)))':
                       ('res', '(bind (str_of what) (fun s_ => Ok (VBool (rmatch_prefix self_regex s_))))')},
            'exceptions': EXC,
        },
        _strrule('StartsWith', 'startswith_satisfied', 'what.lower().startswith(self.val.lower())',
                 'what.startswith(self.val)', 'is_prefix %(v)s %(w)s'),
        _strrule('EndsWith', 'endswith_satisfied', 'what.lower().endswith(self.val.lower())',
                 'what.endswith(self.val)', 'is_suffix %(v)s %(w)s'),
        _strrule('Contains', 'contains_satisfied', 'self.val.lower() in what.lower()', 'self.val in what',
                 'is_substr %(v)s %(w)s'),
        # ---------------- inquiry.py
        {
            'path': IQ, 'qualname': 'InquiryMatchAbstract.satisfied', 'name': 'inqmatch_satisfied', 'prefix': 'im',
            'params': '(self_field : ifield) (self_attribute : option pstr) (what : val) (inquiry : option inquiry)',
            'returns': 'val',
            'locals': [('inquiry_value', 'val', 'VNone')],
            'leaves': {
                'inquiry': ('cond', '(match inquiry with Some _ => true | None => false end)'),
                'getattr(inquiry, self._field_name())':
                    ('pure', '(match inquiry with Some q_ => inq_field self_field q_ | None => VNone end)'),
                'self.attribute is not None': ('cond', '(match self_attribute with Some _ => true | None => false end)'),
                'isinstance(inquiry_value, dict)': ('cond', '(is_dict {inquiry_value})'),
                'self.attribute in inquiry_value':
                    ('cond', '(match self_attribute, {inquiry_value} with Some a_, VDict d_ => has_key a_ d_ | _, _ => false end)'),
                'inquiry_value[self.attribute]':
                    ('res', '(match self_attribute, {inquiry_value} with Some a_, VDict d_ => '
                            'match lookup a_ d_ with Some x_ => Ok x_ | None => Raise EKeyError end | _, _ => Raise ETypeError end)'),
                'what == inquiry_value': ('pure', '(VBool (py_eq what {inquiry_value}))'),
                'False': ('pure', '(VBool false)'),
            },
            'exceptions': EXC,
        },
        _inq_and('SubjectEqual', 'subjectequal_satisfied',
                 'inquiry and isinstance(what, str) and (what == inquiry.subject)', 'is_str what && py_eq what (i_subject q_)'),
        _inq_and('ActionEqual', 'actionequal_satisfied',
                 'inquiry and isinstance(what, str) and (what == inquiry.action)', 'is_str what && py_eq what (i_action q_)'),
        _inq_and('ResourceIn', 'resourcein_satisfied',
                 'inquiry and isinstance(what, list) and (inquiry.resource in what)',
                 'is_list what && mem_val (i_resource q_) (list_val what)'),
        # ---------------- net.py
        {
            'path': NT, 'qualname': 'CIDR.satisfied', 'name': 'cidr_satisfied', 'prefix': 'cd',
            'params': '(self_cidr : val) (what : val)', 'returns': 'val',
            'locals': [('ip', 'ipaddr', '(IP4 0)'), ('net', 'ipnet', '{| net_v6 := false; net_addr := 0; net_len := 0 |}')],
            'leaves': {
                'isinstance(what, str)': ('cond', '(is_str what)'),
                # ValueError = the text is not an address / a network
                'ipaddress.ip_address(what)': ('res', '(bind (parse_ip (str_val what)) val_error)'),
                'ipaddress.ip_network(self.cidr)':
                    ('res', '(match self_cidr with VStr cs_ => bind (parse_net cs_) val_error_n | _ => Raise EUnmodelled end)'),
                'ip in net': ('pure', '(VBool (in_net {ip} {net}))'),
                'False': ('pure', '(VBool false)'),
            },
            'exceptions': EXC,
        },
    ],
}
