"""py2v: a fail-closed translator from a small Python subset (vakt's own control logic) to Gallina.

The CONTROL STRUCTURE of a function (statement order, loops, branches, early returns, break/continue, try/except,
raise, short-circuit and/or/not, list-comprehension filters) is translated generically into the combinators of
coq/Base/PyMonad.v.  The LEAVES (calls, attribute reads, comparisons, arithmetic - the expressions without control
flow) are translated through a per-function table keyed by their normalised source text (ast.unparse): a leaf that
is not in the table aborts the translation with file:line, so an edited operator, callee or argument cannot slip
through.  Every local variable lives in one generated record `<f>_st`, so no data-flow analysis is needed.

A leaf entry is (kind, gallina) with kind in:
   'pure'  - a value                  'res'   - a `res value` (may raise)
   'cond'  - a bool                   'condM' - a `res bool`
In the Gallina text `{x}` stands for the current value of local x and bare identifiers of comprehension /
lambda variables are written as they are.
"""
import ast
import re


class Unsupported(Exception):
    def __init__(self, node, why, fname='?'):
        line = getattr(node, 'lineno', '?')
        super().__init__('%s:%s: %s: %s' % (fname, line, why, _src(node)[:120]))


def _src(node):
    try:
        return ast.unparse(node)
    except Exception:  # noqa
        return repr(node)


def norm(node):
    return re.sub(r'\s+', ' ', _src(node)).strip()


class FunctionTranslator:
    def __init__(self, fname, func_node, schema):
        self.fname = fname
        self.f = func_node
        self.s = schema
        self.locals = schema['locals']            # ordered list of (name, coq type, initial value)
        self.leaves = schema.get('leaves', {})
        self.stmt_leaves = schema.get('stmts', {})
        self.exceptions = schema.get('exceptions', {})
        self.name = schema['name']
        self.px = schema.get('prefix', schema['name'])
        self.bound = set()                        # comprehension variables in scope
        self.used_leaves = set()
        self.in_lock = 0
        self.lock_expr = schema.get('lock')
        self.shared = set(schema.get('shared', ()))

    # ---- helpers
    def fail(self, node, why):
        raise Unsupported(node, why, self.fname)

    def st_type(self):
        return self.name + '_st'

    def fill(self, text, st='st'):
        def rep(m):
            v = m.group(1)
            if v not in [l[0] for l in self.locals]:
                raise KeyError(v)
            return '(%s_%s %s)' % (self.px, v, st)
        return re.sub(r'\{(\w+)\}', rep, text)

    def setter(self, var, value, st='st'):
        fields = []
        for n, _t, _i in self.locals:
            if n == var:
                fields.append('%s_%s := %s' % (self.px, n, value))
            else:
                fields.append('%s_%s := %s_%s %s' % (self.px, n, self.px, n, st))
        return '{| ' + '; '.join(fields) + ' |}'

    # ---- expressions: returns (kind, gallina) with kind in pure/res/cond/condM
    def expr(self, node, want='value'):
        key = norm(node)
        if key in self.leaves:
            self.used_leaves.add(key)
            self.check_shared(node, key)
            entry = self.leaves[key]
            if isinstance(entry, dict):          # the same text read as a condition and as a value
                if want not in entry:
                    self.fail(node, 'leaf has no %r reading' % want)
                entry = entry[want]
            kind, text = entry
            return kind, self.fill(text)
        if isinstance(node, ast.Name):
            if node.id in self.bound:
                return 'pure', node.id
            if node.id in [l[0] for l in self.locals]:
                return 'pure', '(%s_%s st)' % (self.px, node.id)
            self.fail(node, 'unknown name')
        if isinstance(node, ast.BoolOp):
            parts = [self.cond(v) for v in node.values]
            anyM = any(k == 'condM' for k, _ in parts)
            op = 'and' if isinstance(node.op, ast.And) else 'or'
            if not anyM:
                joiner = ' && ' if op == 'and' else ' || '
                return 'cond', '(' + joiner.join(t for _, t in parts) + ')'
            out = None
            for k, t in reversed(parts):
                tm = t if k == 'condM' else '(Ok %s)' % t
                if out is None:
                    out = tm
                else:
                    out = '(%s %s (fun _ => %s))' % ('andM' if op == 'and' else 'orM', tm, out)
            return 'condM', out
        if isinstance(node, ast.UnaryOp) and isinstance(node.op, ast.Not):
            k, t = self.cond(node.operand)
            if k == 'cond':
                return 'cond', '(negb %s)' % t
            return 'condM', '(rmap negb %s)' % t
        if isinstance(node, ast.ListComp):
            if len(node.generators) != 1 or node.generators[0].is_async:
                self.fail(node, 'comprehension shape')
            g = node.generators[0]
            if not isinstance(g.target, ast.Name):
                self.fail(node, 'comprehension target must be a name')
            ik, it = self.expr(g.iter)
            if ik != 'pure':
                self.fail(g.iter, 'iterable must be pure')
            if not isinstance(node.elt, ast.Name) or node.elt.id != g.target.id:
                # [e(x) for x in xs]: map / mapM of the element expression (a leaf that mentions x), evaluated
                # left to right; the first exception ends it
                if g.ifs:
                    self.fail(node, 'a mapped comprehension with `if` is outside the subset')
                self.bound.add(g.target.id)
                try:
                    ek, et = self.expr(node.elt)
                finally:
                    self.bound.discard(g.target.id)
                if ek == 'pure':
                    return 'pure', '(map (fun %s => %s) %s)' % (g.target.id, et, it)
                if ek == 'res':
                    return 'res', '(mapM (fun %s => %s) %s)' % (g.target.id, et, it)
                self.fail(node.elt, 'element of a comprehension must be a value')
            self.bound.add(g.target.id)
            try:
                conds = [self.cond(c) for c in g.ifs]
            finally:
                self.bound.discard(g.target.id)
            if not conds:
                return 'pure', it
            if len(conds) == 1:
                ck, ct = conds[0]
            else:
                self.fail(node, 'one `if` per comprehension')
            if ck == 'cond':
                return 'pure', '(filter (fun %s => %s) %s)' % (g.target.id, ct, it)
            return 'res', '(filterM (fun %s => %s) %s)' % (g.target.id, ct, it)
        self.fail(node, 'expression outside the translated subset (no leaf entry)')

    def check_shared(self, node, key):
        """lock discipline: a leaf that touches the shared state must be lexically inside `with <lock>:`"""
        if key in self.shared and not self.in_lock:
            self.fail(node, 'shared state accessed outside `with %s`' % self.lock_expr)

    def cond(self, node):
        k, t = self.expr(node, 'cond')
        if k in ('cond', 'condM'):
            return k, t
        self.fail(node, 'a condition must be a cond/condM leaf (truthiness is not guessed)')

    # ---- statements: each returns a Gallina term of type  res (ctl ST R)  with `st` free
    # ---- term constructors: plain mode (res) and x-mode (xres: an exception carries the state reached, so that a
    #      handler - and the caller - see the effects of the part of the body that ran)
    @property
    def x(self):
        return bool(self.s.get('xmode'))

    def t_ok(self, ctl):
        return '(%s %s)' % ('XOk' if self.x else 'Ok', ctl)

    def t_raise(self, e):
        return '(XRaise %s st)' % e if self.x else '(Raise %s)' % e

    def t_seq(self, a, b):
        return '(%s %s (fun st => %s))' % ('xseqc' if self.x else 'seqc', a, b)

    def t_bind(self, m, var, body):
        """m : res A (a leaf that may raise without touching the state)"""
        if self.x:
            return '(xbind (xlift st %s) (fun %s => %s))' % (m, var, body)
        return '(bind %s (fun %s => %s))' % (m, var, body)

    def block(self, stmts):
        if not stmts:
            return self.t_ok('(Normal st)')
        first = self.stmt(stmts[0])
        if len(stmts) == 1:
            return first
        rest = self.block(stmts[1:])
        return self.t_seq(first, rest)

    def stmt(self, node):
        key = norm(node)
        if key in self.stmt_leaves:
            self.used_leaves.add(key)
            self.check_shared(node, key)
            kind, payload = self.stmt_leaves[key]
            if kind == 'skip':
                return self.t_ok('(Normal st)')
            if kind == 'set':            # payload: [(var, gallina value)], applied in order
                lets = ''.join('(let st := %s in ' % self.setter(var, self.fill(val)) for var, val in payload)
                return lets + self.t_ok('(Normal st)') + ')' * len(payload)
            if kind == 'setM':           # payload: (var, gallina res value)
                var, val = payload
                return self.t_bind(self.fill(val), 'v__', self.t_ok('(Normal %s)' % self.setter(var, 'v__')))
            if kind == 'raw':
                return self.fill(payload)
            self.fail(node, 'bad stmt leaf kind')
        if isinstance(node, ast.Expr):
            if isinstance(node.value, ast.Constant) and isinstance(node.value.value, str):
                return self.t_ok('(Normal st)')                # docstring
            if _is_logging(node):
                return self.t_ok('(Normal st)')                # a logging call with inert arguments changes nothing
            self.fail(node, 'expression statement without a stmt entry')
        if isinstance(node, ast.Pass):
            return self.t_ok('(Normal st)')
        if isinstance(node, ast.Assign) and len(node.targets) == 1 and isinstance(node.targets[0], ast.Name):
            var = node.targets[0].id
            if var not in [l[0] for l in self.locals]:
                self.fail(node, 'assignment to an undeclared local')
            k, t = self.expr(node.value)
            if k in ('pure', 'cond'):
                return self.t_ok('(Normal %s)' % self.setter(var, t))
            return self.t_bind(t, 'v__', self.t_ok('(Normal %s)' % self.setter(var, 'v__')))
        if isinstance(node, ast.Return):
            if node.value is None:
                k, t = 'pure', self.s.get('return_none', 'tt')
            else:
                k, t = self.expr(node.value)
            if k in ('pure', 'cond'):
                return self.t_ok('(Ret (st, %s))' % t)
            return self.t_bind(t, 'v__', self.t_ok('(Ret (st, v__))'))
        if isinstance(node, ast.If):
            k, t = self.cond(node.test)
            a = self.block(node.body)
            b = self.block(node.orelse)
            if k == 'cond':
                return '(if %s then %s else %s)' % (t, a, b)
            return self.t_bind(t, 'c__', 'if c__ then %s else %s' % (a, b))
        if isinstance(node, ast.For):
            if node.orelse:
                self.fail(node, 'for/else')
            ik, it = self.expr(node.iter)
            if ik not in ('pure', 'res'):
                self.fail(node.iter, 'loop iterable must be a value')
            tkey = norm(node.target)
            targets = self.s.get('targets', {}).get(tkey)
            if targets is None:
                self.fail(node.target, 'loop target without a `targets` entry')
            pat, sets = targets          # e.g. ("'(i, v)", [('i','i'),('v','v')])
            body = self.block(node.body)
            lets = ''.join('(let st := %s in ' % self.setter(var, val) for var, val in sets)
            fe = 'xfor_each' if self.x else 'for_each'
            if ik == 'res':         # obtaining the iterator may raise (e.g. iterating a non-iterable)
                return self.t_bind(it, 'l__', '%s l__ st (fun %s st => %s%s%s)' % (fe, pat, lets, body, ')' * len(sets)))
            return '(%s %s st (fun %s st => %s%s%s))' % (fe, it, pat, lets, body, ')' * len(sets))
        if isinstance(node, ast.With):
            # `with self.lock:` - sequentially the body; the lexical extent feeds the lock-discipline check
            if len(node.items) != 1 or node.items[0].optional_vars is not None or \
                    self.lock_expr is None or norm(node.items[0].context_expr) != self.lock_expr:
                self.fail(node, 'with-statement other than the declared lock')
            self.in_lock += 1
            try:
                return self.block(node.body)
            finally:
                self.in_lock -= 1
        if isinstance(node, ast.While):
            if node.orelse:
                self.fail(node, 'while/else')
            if self.x:
                self.fail(node, 'while-loop in x-mode')
            fuel = self.s.get('fuel')
            if fuel is None:
                self.fail(node, 'while-loop without a `fuel` entry')
            if isinstance(node.test, ast.Constant) and node.test.value is True:
                ct = 'Ok true'
            else:
                k, t = self.cond(node.test)
                ct = '(Ok %s)' % t if k == 'cond' else t
            body = self.block(node.body)
            return '(while_loop %s st (fun st => %s) (fun st => %s))' % (self.fill(fuel), ct, body)
        if isinstance(node, ast.Continue):
            return self.t_ok('(Cont st)')
        if isinstance(node, ast.Break):
            return self.t_ok('(Brk st)')
        if isinstance(node, ast.Raise):
            if node.exc is None:
                self.fail(node, 'bare raise outside a handler')
            cls = norm(node.exc.func) if isinstance(node.exc, ast.Call) else norm(node.exc)
            if cls not in self.exceptions:
                self.fail(node, 'unknown exception class')
            return self.t_raise(self.exceptions[cls])
        if isinstance(node, ast.Try):
            if node.finalbody or node.orelse:
                self.fail(node, 'try/finally, try/else')
            if not self.x:
                self.check_try(node)
            body = self.block(node.body)
            out = self.t_raise('e__')
            for h in reversed(node.handlers):
                cls = norm(h.type) if h.type is not None else None
                if cls == 'Exception':
                    test = 'is_exception e__'
                elif cls in self.exceptions:
                    test = 'exn_eqb e__ %s' % self.exceptions[cls]
                else:
                    self.fail(h, 'unknown exception class in handler')
                hbody_nodes = h.body
                reraises = False
                last = hbody_nodes[-1] if hbody_nodes else None
                if isinstance(last, ast.Raise) and (last.exc is None or (
                        h.name and isinstance(last.exc, ast.Name) and last.exc.id == h.name and last.cause is None)):
                    reraises = True           # `raise` / `raise e` of the caught exception
                    hbody_nodes = hbody_nodes[:-1]
                hb = self.block(hbody_nodes)
                if reraises:
                    hb = self.t_seq(hb, self.t_raise('e__'))
                out = '(if %s then %s else %s)' % (test, hb, out)
            if self.x:          # the handler continues from the state the body had reached when it raised
                return '(match %s with XRaise e__ st => %s | r__ => r__ end)' % (body, out)
            return '(match %s with Raise e__ => %s | r__ => r__ end)' % (body, out)
        self.fail(node, 'statement outside the translated subset')

    # a handler runs on the state from before the `try` (assignments made by the part of the body that ran
    # are dropped).  That is only faithful if nothing reads them: refuse otherwise.
    @staticmethod
    def _assigned(nodes):
        out = set()
        for n in nodes:
            for x in ast.walk(n):
                if isinstance(x, ast.Name) and isinstance(x.ctx, ast.Store):
                    out.add(x.id)
        return out

    @staticmethod
    def _loaded(nodes):
        out = set()
        for n in nodes:
            for x in ast.walk(n):
                if isinstance(x, ast.Name) and isinstance(x.ctx, ast.Load):
                    out.add(x.id)
        return out

    def check_try(self, node):
        body_assigned = self._assigned(node.body) & set(l[0] for l in self.locals)
        if not body_assigned:
            return
        inside = set(id(x) for b in node.body for x in ast.walk(b))
        outside_loads = set()
        for x in ast.walk(self.f):
            if id(x) in inside:
                continue
            if isinstance(x, ast.Name) and isinstance(x.ctx, ast.Load):
                outside_loads.add(x.id)
        for h in node.handlers:
            # variables every path of the handler assigns at its top level before anything else reads them
            top = set()
            for stmt_ in h.body:
                if isinstance(stmt_, ast.Assign) and len(stmt_.targets) == 1 and isinstance(stmt_.targets[0], ast.Name) \
                        and not (self._loaded([stmt_.value]) & body_assigned):
                    top.add(stmt_.targets[0].id)
            ends = h.body and isinstance(h.body[-1], (ast.Return, ast.Raise))
            risky = (body_assigned - top) & (self._loaded(h.body) | (set() if ends else outside_loads))
            if risky:
                self.fail(node, 'handler or later code may read %s assigned inside the try body' % sorted(risky))

    # ---- whole function
    def translate(self):
        out = []
        n = self.name
        px = self.px
        out.append('Record %s_st : Type := { %s }.' % (n, '; '.join('%s_%s : %s' % (px, v, t) for v, t, _ in self.locals)))
        body_nodes = list(self.f.body)
        body = self.block(body_nodes)
        init = '{| ' + '; '.join('%s_%s := %s' % (px, v, i) for v, _t, i in self.locals) + ' |}'
        out.append('Definition %s %s : res (%s) :=' % (n, self.s['params'], self.s['returns']))
        out.append('  let st := %s in' % init)
        rt = self.s.get('ret_type', self.s['returns'])
        if self.x:
            out.append('  match (%s : xres %s_st (ctl %s_st (%s_st * (%s)))) with' % (body, n, n, n, rt))
            out.append('  | XOk (Ret (st, r__)) => %s' % self.fill(self.s.get('finish', 'Ok r__')))
            out.append('  | XOk (Normal st) | XOk (Brk st) | XOk (Cont st) => %s'
                       % self.fill(self.s.get('falloff', 'Raise EUnmodelled')))
            out.append('  | XRaise e__ st => %s' % self.fill(self.s.get('on_raise', 'Raise e__')))
            out.append('  end.')
        else:
            out.append('  match (%s : res (ctl %s_st (%s_st * (%s)))) with' % (body, n, n, rt))
            out.append('  | Ok (Ret (st, r__)) => %s' % self.fill(self.s.get('finish', 'Ok r__')))
            out.append('  | Ok (Normal st) | Ok (Brk st) | Ok (Cont st) => %s'
                       % self.fill(self.s.get('falloff', 'Raise EUnmodelled')))
            out.append('  | Raise e__ => Raise e__')
            out.append('  end.')
        unused = [k for k in list(self.leaves) + list(self.stmt_leaves) if k not in self.used_leaves and k not in ('True', 'False')]
        return '\n'.join(out), unused


def find_function(tree, qualname):
    parts = qualname.split('.')
    body = tree.body
    node = None
    for p in parts:
        node = None
        for x in body:
            if isinstance(x, (ast.FunctionDef, ast.ClassDef)) and x.name == p:
                node = x
                break
        if node is None:
            raise KeyError(qualname)
        body = node.body
    return node


def translate_module(repo, mod, header):
    """-> Gallina text for all scheduled functions of one source file; raises Unsupported"""
    import os
    path = os.path.join(repo, mod['path'])
    src = open(path).read()
    tree = ast.parse(src)
    out = [header % {'path': mod['path'], 'imports': mod.get('imports', '')}, mod.get('prelude', '')]
    ftrees = {mod['path']: tree}
    for sch in mod['functions']:
        if 'coq' in sch:                      # hand-written glue between two translated functions, emitted verbatim
            out.append(sch['coq'])
            continue
        fpath = sch.get('path', mod['path'])  # a module may gather functions of several source files
        if fpath not in ftrees:
            ftrees[fpath] = ast.parse(open(os.path.join(repo, fpath)).read())
        try:
            f = find_function(ftrees[fpath], sch['qualname'])
        except KeyError:
            raise Unsupported(ftrees[fpath], 'function %s not found' % sch['qualname'], fpath)
        text, unused = FunctionTranslator(fpath, f, sch).translate()
        if unused:
            raise Unsupported(f, 'leaf-table entries that no longer occur in %s: %r' % (sch['qualname'], unused[:3]),
                              fpath)
        out.append('(* translated from %s : %s *)' % (fpath, sch['qualname']))
        out.append(text)
        out.append('')
    out.append(mod.get('epilogue', ''))
    # pinned functions: small leaf functions whose meaning the leaf tables (or the correspondence streams) take as
    # given.  Their source is compared, docstring and whitespace aside, with the text recorded in the schema.
    trees = {mod['path']: tree}
    for (rel, qual), want in mod.get('pinned', {}).items():
        if rel not in trees:
            trees[rel] = ast.parse(open(os.path.join(repo, rel)).read())
        try:
            f = find_function(trees[rel], qual)
        except KeyError:
            raise Unsupported(trees[rel], 'pinned function %s not found' % qual, rel)
        got = pinned_text(f)
        if got != want:
            raise Unsupported(f, 'pinned function %s changed: now %r' % (qual, got[:200]), rel)
    for (rel, qual), want in mod.get('pinned_sig', {}).items():
        if rel not in trees:
            trees[rel] = ast.parse(open(os.path.join(repo, rel)).read())
        try:
            f = find_function(trees[rel], qual)
        except KeyError:
            raise Unsupported(trees[rel], 'function %s not found' % qual, rel)
        if norm(f.args) != want:
            raise Unsupported(f, 'signature of %s changed: now (%s)' % (qual, norm(f.args)), rel)
    for (rel, qual), want in mod.get('pinned_assign', {}).items():
        if rel not in trees:
            trees[rel] = ast.parse(open(os.path.join(repo, rel)).read())
        got = find_assign(trees[rel], qual)
        if got != want:
            raise Unsupported(trees[rel], 'pinned attribute %s changed: now %r' % (qual, got), rel)
    return '\n'.join(out)


def find_assign(tree, qualname):
    """source text of the value assigned to Class.attr (or a module-level name); None if absent"""
    parts = qualname.split('.')
    body = tree.body
    for p in parts[:-1]:
        nxt = [x for x in body if isinstance(x, ast.ClassDef) and x.name == p]
        if not nxt:
            return None
        body = nxt[0].body
    vals = [norm(x.value) for x in body if isinstance(x, ast.Assign) and len(x.targets) == 1 and
            isinstance(x.targets[0], ast.Name) and x.targets[0].id == parts[-1]]
    return vals[0] if len(vals) == 1 else None


def _inert(e):
    """an expression whose evaluation cannot raise or change anything: constants, names, attribute reads,
    type(x), tuples / lists of those"""
    if isinstance(e, (ast.Constant, ast.Name)):
        return True
    if isinstance(e, ast.Attribute):
        return _inert(e.value)
    if isinstance(e, (ast.Tuple, ast.List)):
        return all(_inert(x) for x in e.elts)
    if isinstance(e, ast.Call) and isinstance(e.func, ast.Name) and e.func.id == 'type' and not e.keywords:
        return all(_inert(x) for x in e.args)
    return False


def _is_logging(stmt):
    """a logging / warnings call that can be left out: its arguments are inert.  `log.debug('%s' % x)`,
    `log.info('...', doc['uid'])`, f-strings and calls in the arguments are evaluated before the logger is asked
    anything - they can raise, so such a statement is code like any other"""
    if not (isinstance(stmt, ast.Expr) and isinstance(stmt.value, ast.Call) and
            norm(stmt.value.func).startswith(('log.', 'warnings.warn'))):
        return False
    call = stmt.value
    return all(_inert(a) for a in call.args) and all(_inert(k.value) for k in call.keywords)


class _DropLogging(ast.NodeTransformer):
    """logging calls never change behaviour: they are not part of a pinned text"""
    def generic_visit(self, node):
        super().generic_visit(node)
        for field in ('body', 'orelse', 'finalbody'):
            stmts = getattr(node, field, None)
            if isinstance(stmts, list) and stmts and isinstance(stmts[0], ast.stmt):
                kept = [x for x in stmts if not _is_logging(x)]
                setattr(node, field, kept or [ast.Pass()])
        return node


def snapshot_file(repo, rel):
    """every function / method of a source file and every simple module- or class-level constant, as pinned text"""
    import os
    rel, _, only = rel.partition('#')
    tree = ast.parse(open(os.path.join(repo, rel)).read())
    out = {}

    def walk(body, prefix):
        for x in body:
            if isinstance(x, (ast.FunctionDef, ast.AsyncFunctionDef)):
                out[prefix + x.name] = pinned_text(x)
            elif isinstance(x, ast.ClassDef):
                out[prefix + x.name + '()'] = 'class %s(%s)' % (x.name, ', '.join(norm(b) for b in x.bases))
                walk(x.body, prefix + x.name + '.')
            elif isinstance(x, ast.Assign) and len(x.targets) == 1 and isinstance(x.targets[0], ast.Name):
                out[prefix + x.targets[0].id + '='] = norm(x.value)
    walk(tree.body, '')
    if only:
        out = {k: v for k, v in out.items() if k.startswith(only)}
    return out


def pinned_text(f):
    import copy
    f = _DropLogging().visit(copy.deepcopy(f))
    body = list(f.body)
    if body and isinstance(body[0], ast.Expr) and isinstance(body[0].value, ast.Constant) and \
            isinstance(body[0].value.value, str):
        body = body[1:]
    decos = ''.join('@%s ' % norm(d) for d in getattr(f, 'decorator_list', []))
    if isinstance(f, ast.ClassDef):
        head = 'class %s(%s)' % (f.name, ', '.join(norm(b) for b in f.bases))
    else:
        head = 'def %s(%s)' % (f.name, norm(f.args))
    return decos + head + ': ' + '; '.join(norm(b) for b in body)
