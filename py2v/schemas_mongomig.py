"""Leaf tables for the data migrations of vakt/storage/mongo.py (orders 2, 3, 4), MongoMigration._each_doc and
MongoStorage.__prepare_doc.  Documents are `doc` (Model/MongoMig.v): key/value lists over `val`; a 1.1.0 rule string
is represented already parsed (see Model/MongoMig.v).  A dictionary reached through another one (`rule` inside
doc['rules']) is mutated in place by the source; the tables write such a mutation back under the key being visited.
"""
from .schemas_common import EXC

MG = 'vakt/storage/mongo.py'
_EXC = dict(EXC, Irreversible='EIrreversible')

_RULE_LOOP = ("'(key_, rule_)", [('key', 'key_'), ('rule', 'rule_')])

MONGOMIG = {
    'path': MG,
    'module': 'MongoMigG',
    'imports': 'From Coq Require Import String Ascii.\nFrom Vakt Require Import Model.MongoMig.',
    'prelude': '''
Notation mdoc := MongoMig.doc.
Fixpoint pstr_of (s : string) : pstr :=
  match s with EmptyString => [] | String c r => N_of_ascii c :: pstr_of r end.

(* v[k] on a value that should be a dictionary (TypeError / KeyError otherwise; any non-Irreversible exception counts
   the same for _each_doc - the model calls it EException, KeyError where the model does) *)
Definition vget (k : pstr) (v : val) : res val := match v with VDict kvs => dget k kvs | _ => Raise EException end.
Definition items_of (m : res val) : res (list (pstr * val)) :=
  bind m (fun v => match v with VDict kvs => Ok kvs | _ => Raise EException end).
Definition list_of (m : res val) : res (list val) :=
  bind m (fun v => match v with VList l => Ok l | _ => Raise EException end).
(* b_json.loads of a stored rule string: the parsed value; a string that is no JSON stays a VStr and raises *)
Definition json_loads (v : val) : res val := match v with VStr _ => Raise EException | _ => Ok v end.
(* d.update(c) *)
Definition dict_update (d : doc) (c : val) : res doc :=
  match c with
  | VDict ckvs => Ok (fold_left (fun acc kv => dset (fst kv) (snd kv) acc) ckvs d)
  | _ => Raise EException
  end.
Definition dict_of (v : val) : doc := match v with VDict kvs => kvs | _ => [] end.
Definition str_is (v : val) (s : pstr) : bool := match v with VStr t => pstr_eqb t s | _ => false end.
(* s.startswith(p) on a value that should be a string (AttributeError otherwise) *)
Definition starts (v : val) (p : pstr) : res bool := match v with VStr t => Ok (is_prefix p t) | _ => Raise EException end.
Definition k_id : pstr := pstr_of "_id".
(* self.rules_rename (pinned __init__ of Migration1x1x1To1x2x0), in insertion order *)
Definition renames_g : list (pstr * pstr) :=
  [ (pstr_of "vakt.rules.string.StringEqualRule", pstr_of "vakt.rules.string.Equal");
    (pstr_of "vakt.rules.string.RegexMatchRule", pstr_of "vakt.rules.string.RegexMatch");
    (pstr_of "vakt.rules.string.StringPairsEqualRule", pstr_of "vakt.rules.string.PairsEqual");
    (pstr_of "vakt.rules.net.CIDRRule", pstr_of "vakt.rules.net.CIDR");
    (pstr_of "vakt.rules.inquiry.SubjectEqualRule", pstr_of "vakt.rules.inquiry.SubjectEqual");
    (pstr_of "vakt.rules.inquiry.ActionEqualRule", pstr_of "vakt.rules.inquiry.ActionEqual");
    (pstr_of "vakt.rules.inquiry.ResourceInRule", pstr_of "vakt.rules.inquiry.ResourceIn") ].
(* self.condition_fields (pinned MongoStorage.__init__) *)
Definition condition_fields_g : list pstr := [pstr_of "actions"; pstr_of "subjects"; pstr_of "resources"].
Definition compiled_name_g (f : pstr) : pstr := f ++ pstr_of "_compiled_regex".
(* replace_one({'_id': i}, new): the first document whose _id equals i *)
Fixpoint replace_by_id (i : val) (new : doc) (coll : list doc) : list doc :=
  match coll with
  | [] => []
  | d :: r => match lookup k_id d with
              | Some j => if py_eq j i then new :: r else d :: replace_by_id i new r
              | None => d :: replace_by_id i new r
              end
  end.
''',
    'epilogue': '',
    'pinned': {
        (MG, 'Migration1x1x0To1x1x1.__init__'):
            'def __init__(self, storage): self.storage = storage; self._type_marker = jsonpickle.tags.OBJECT',
        (MG, 'Migration1x1x1To1x2x0.__init__'):
            "def __init__(self, storage): self.storage = storage; self.type_field = 'type'; self.type_index = 'type_idx'; "
            "self.rules_rename = {'vakt.rules.string.StringEqualRule': 'vakt.rules.string.Equal', "
            "'vakt.rules.string.RegexMatchRule': 'vakt.rules.string.RegexMatch', "
            "'vakt.rules.string.StringPairsEqualRule': 'vakt.rules.string.PairsEqual', "
            "'vakt.rules.net.CIDRRule': 'vakt.rules.net.CIDR', "
            "'vakt.rules.inquiry.SubjectEqualRule': 'vakt.rules.inquiry.SubjectEqual', "
            "'vakt.rules.inquiry.ActionEqualRule': 'vakt.rules.inquiry.ActionEqual', "
            "'vakt.rules.inquiry.ResourceInRule': 'vakt.rules.inquiry.ResourceIn'}",
        (MG, 'MongoStorage.__init__'):
            "def __init__(self, client, db_name, collection=DEFAULT_COLLECTION): self.client = client; "
            "self.database = self.client[db_name]; self.collection = self.database[collection]; "
            "self.db_server_version = tuple(map(int, client.server_info()['version'].split('.'))); "
            "self.condition_fields = ['actions', 'subjects', 'resources']; "
            "self.condition_field_compiled_name = lambda x: '%s_compiled_regex' % x",
    },
    'functions': [
        # ---------------- _each_doc: the processor's result replaces the stored document; a document whose processor
        # raises stays as it is and is reported.  x-mode: an exception keeps the replacements made so far.
        {
            'qualname': 'MongoMigration._each_doc', 'name': 'each_doc_g', 'prefix': 'ed', 'xmode': True,
            'params': '(processor : mdoc -> res mdoc) (coll0 : list mdoc)',
            'returns': 'list mdoc * list mdoc', 'ret_type': 'unit', 'return_none': 'tt',
            'locals': [('coll', 'list mdoc', 'coll0'), ('failed_policies', 'list mdoc', '[]'), ('cur', 'list mdoc', '[]'),
                       ('doc', 'mdoc', '[]'), ('new_doc', 'mdoc', '[]'), ('storage', 'unit', 'tt'), ('msg', 'unit', 'tt')],
            'targets': {'doc': ('doc_', [('doc', 'doc_')])},
            'falloff': 'Ok ({coll}, {failed_policies})', 'finish': 'Ok ({coll}, {failed_policies})',
            'on_raise': 'Raise e__',
            'leaves': {
                '[]': ('pure', '[]'),
                "getattr(self, 'storage')": ('pure', 'tt'),
                'storage.collection.find()': ('pure', '{coll}'),        # the cursor: the documents as they are now
                'cur': ('pure', '{cur}'),
                'processor(doc)': ('res', '(processor {doc})'),
                'failed_policies': ('cond', '(match {failed_policies} with [] => false | _ => true end)'),
            },
            'stmts': {
                "storage.collection.replace_one({'_id': new_doc['uid']}, new_doc)":
                    ('raw', '(xbind (xlift st (dget k_uid {new_doc})) (fun i_ => XOk (Normal {| ed_coll := '
                            'replace_by_id i_ (ed_new_doc st) (ed_coll st); ed_failed_policies := ed_failed_policies st; '
                            'ed_cur := ed_cur st; ed_doc := ed_doc st; ed_new_doc := ed_new_doc st; '
                            'ed_storage := ed_storage st; ed_msg := ed_msg st |})))'),
                'failed_policies.append(doc)': ('set', [('failed_policies', '({failed_policies} ++ [{doc}])')]),
                # the arguments of a logging call are evaluated like any others: doc['uid'] raises KeyError on a document
                # without a uid (inside the try: such a document is reported as failed)
                "log.info('Trying to migrate Policy with UID: %s', doc['uid'])":
                    ('raw', '(xbind (xlift st (dget k_uid {doc})) (fun _ => XOk (Normal st)))'),
                "log.info('Policy with UID: %s was migrated', doc['uid'])":
                    ('raw', '(xbind (xlift st (dget k_uid {doc})) (fun _ => XOk (Normal st)))'),
                # building the text of the final error message
                "msg = '\\n'.join(['Migration was unable to convert some Policies, but they were left in the database as-is. ' "
                "+ 'They might be not automatically convertible, custom ones, malformed JSON docs.', "
                "'You must convert them manually or delete entirely. See above log output for details of migration.', "
                "'Mongo IDs of failed Policies are: %s' % [p['_id'] for p in failed_policies]])": ('skip', None),
            },
            'exceptions': _EXC,
        },
        # ---------------- #2 up: {"type": T, "contents": {...}}  ->  {"py/object": T, **contents}
        {
            'qualname': 'Migration1x1x0To1x1x1.up.process', 'name': 'up2_process', 'prefix': 'u2',
            'params': '(doc : mdoc)', 'returns': 'mdoc',
            'locals': [('doc_to_save', 'mdoc', '[]'), ('rules_to_save', 'mdoc', '[]'), ('name', 'pstr', '[]'),
                       ('rule_str', 'val', 'VNone'), ('rule', 'val', 'VNone'), ('rule_to_save', 'mdoc', '[]')],
            'targets': {'(name, rule_str)': ("'(name_, rule_str_)", [('name', 'name_'), ('rule_str', 'rule_str_')])},
            'leaves': {
                'copy.deepcopy(doc)': ('pure', 'doc'),
                '{}': ('pure', '[]'),
                "doc['rules'].items()": ('res', '(items_of (dget k_rules doc))'),
                'b_json.loads(rule_str)': ('res', '(json_loads {rule_str})'),
                "{self._type_marker: rule['type']}": ('res', '(bind (vget k_type {rule}) (fun t_ => Ok [(k_pyobject, t_)]))'),
                'doc_to_save': ('pure', '{doc_to_save}'),
            },
            'stmts': {
                "rule_to_save.update(rule['contents'])":
                    ('setM', ('rule_to_save', '(bind (vget k_contents {rule}) (dict_update {rule_to_save}))')),
                'rules_to_save[name] = rule_to_save':
                    ('set', [('rules_to_save', '(dset {name} (VDict {rule_to_save}) {rules_to_save})')]),
                "doc_to_save['rules'] = rules_to_save":
                    ('set', [('doc_to_save', '(dset k_rules (VDict {rules_to_save}) {doc_to_save})')]),
            },
            'exceptions': _EXC,
        },
        # ---------------- #2 down
        {
            'qualname': 'Migration1x1x0To1x1x1.down.process', 'name': 'down2_process', 'prefix': 'd2',
            'params': '(doc : mdoc)', 'returns': 'mdoc',
            'locals': [('doc_to_save', 'mdoc', '[]'), ('rules_to_save', 'mdoc', '[]'), ('name', 'pstr', '[]'),
                       ('rule', 'val', 'VNone'), ('rule_type', 'val', 'VNone'), ('rule_contents', 'mdoc', '[]'),
                       ('rule_to_save', 'mdoc', '[]'), ('value', 'val', 'VNone')],
            'targets': {'(name, rule)': ("'(name_, rule_)", [('name', 'name_'), ('rule', 'rule_')]),
                        'value': ('value_', [('value', 'value_')])},
            'leaves': {
                'copy.deepcopy(doc)': ('pure', 'doc'),
                '{}': ('pure', '[]'),
                "doc['rules'].items()": ('res', '(items_of (dget k_rules doc))'),
                'rule[self._type_marker]': ('res', '(vget k_pyobject {rule})'),
                'rule.copy()': ('pure', '(dict_of {rule})'),
                "{'type': rule_type, 'contents': {}}": ('pure', '[(k_type, {rule_type}); (k_contents, VDict [])]'),
                "rule_type.startswith('vakt.rules.')": ('condM', '(starts {rule_type} (pstr_of "vakt.rules."))'),
                'rule_contents.values()': ('pure', '(map snd {rule_contents})'),
                'isinstance(value, (dict, Rule))': ('cond', '(is_dict {value})'),
                'jsonpickle.tags.RESERVED.intersection(value.keys())': ('cond', '(has_reserved {value})'),
                "rule_type == 'vakt.rules.string.RegexMatchRule'":
                    ('cond', '(str_is {rule_type} (pstr_of "vakt.rules.string.RegexMatchRule"))'),
                'doc_to_save': ('pure', '{doc_to_save}'),
            },
            'stmts': {
                'del rule_contents[self._type_marker]': ('set', [('rule_contents', '(ddel k_pyobject {rule_contents})')]),
                "rule_to_save['contents'].update(rule_contents)":
                    ('setM', ('rule_to_save',
                              '(bind (vget k_contents (VDict {rule_to_save})) (fun c_ => bind (dict_update (dict_of c_) '
                              '(VDict {rule_contents})) (fun c2_ => Ok (dset k_contents (VDict c2_) {rule_to_save}))))')),
                # json.dumps(..., sort_keys=True): the string is represented by the value it prints
                'rules_to_save[name] = b_json.dumps(rule_to_save, sort_keys=True)':
                    ('set', [('rules_to_save', '(dset {name} (VDict {rule_to_save}) {rules_to_save})')]),
                "doc_to_save['rules'] = rules_to_save":
                    ('set', [('doc_to_save', '(dset k_rules (VDict {rules_to_save}) {doc_to_save})')]),
            },
            'exceptions': _EXC,
        },
        # ---------------- #3 up
        {
            'qualname': 'Migration1x1x1To1x2x0.up.process', 'name': 'up3_process', 'prefix': 'u3',
            'params': '(doc0 : mdoc)', 'returns': 'mdoc',
            'locals': [('doc', 'mdoc', 'doc0'), ('key', 'pstr', '[]'), ('rule', 'val', 'VNone'),
                       ('rule_type', 'val', 'VNone'), ('old', 'pstr', '[]'), ('new', 'pstr', '[]')],
            'targets': {'rule': _RULE_LOOP,
                        '(old, new)': ("'(old_, new_)", [('old', 'old_'), ('new', 'new_')])},
            'leaves': {
                # .values() of the dictionary stored in the document; the key is kept to write mutations back
                "doc['rules'].values()": ('res', '(items_of (dget k_rules {doc}))'),
                'rule[jsonpickle.tags.OBJECT]': ('res', '(vget k_pyobject {rule})'),
                'self.rules_rename.items()': ('pure', 'renames_g'),
                'rule_type == old': ('cond', '(str_is {rule_type} {old})'),
                'doc': ('pure', '{doc}'),
            },
            'stmts': {
                "doc['type'] = TYPE_STRING_BASED": ('set', [('doc', '(dset k_type (VInt 1) {doc})')]),
                # in-place mutation of the rule dictionary that sits in doc['rules'] under `key`
                'rule[jsonpickle.tags.OBJECT] = new':
                    ('set', [('rule', '(VDict (dset k_pyobject (VStr {new}) (dict_of {rule})))'),
                             ('doc', '(dset k_rules (VDict (dset {key} {rule} (dict_of (match lookup k_rules {doc} with '
                                     'Some r_ => r_ | None => VNone end)))) {doc})')]),
                "doc['context'] = doc['rules']":
                    ('setM', ('doc', '(bind (dget k_rules {doc}) (fun r_ => Ok (dset k_context r_ {doc})))')),
                "del doc['rules']": ('set', [('doc', '(ddel k_rules {doc})')]),
            },
            'exceptions': _EXC,
        },
        # ---------------- #3 down
        {
            'qualname': 'Migration1x1x1To1x2x0.down.process', 'name': 'down3_process', 'prefix': 'd3',
            'params': '(doc0 : mdoc)', 'returns': 'mdoc',
            'locals': [('doc', 'mdoc', 'doc0'), ('key', 'pstr', '[]'), ('rule', 'val', 'VNone'),
                       ('rule_type', 'val', 'VNone'), ('old', 'pstr', '[]'), ('new', 'pstr', '[]')],
            'targets': {'rule': _RULE_LOOP,
                        '(old, new)': ("'(old_, new_)", [('old', 'old_'), ('new', 'new_')])},
            'leaves': {
                "doc['type'] != TYPE_STRING_BASED":
                    ('condM', '(bind (dget k_type {doc}) (fun t_ => Ok (negb (py_eq t_ (VInt 1)))))'),
                "doc['context'].values()": ('res', '(items_of (dget k_context {doc}))'),
                'rule[jsonpickle.tags.OBJECT]': ('res', '(vget k_pyobject {rule})'),
                'self.rules_rename.items()': ('pure', 'renames_g'),
                'rule_type == new': ('cond', '(str_is {rule_type} {new})'),
                "rule_type.startswith('vakt.rules.list')": ('condM', '(starts {rule_type} (pstr_of "vakt.rules.list"))'),
                "rule_type.startswith('vakt.rules.logic')": ('condM', '(starts {rule_type} (pstr_of "vakt.rules.logic"))'),
                "rule_type.startswith('vakt.rules.operator')":
                    ('condM', '(starts {rule_type} (pstr_of "vakt.rules.operator"))'),
                "rule_type in ['vakt.rules.string.StartsWith', 'vakt.rules.string.EndsWith', 'vakt.rules.string.Contains']":
                    ('cond', '(existsb (str_is {rule_type}) [pstr_of "vakt.rules.string.StartsWith"; '
                             'pstr_of "vakt.rules.string.EndsWith"; pstr_of "vakt.rules.string.Contains"])'),
                'doc': ('pure', '{doc}'),
            },
            'stmts': {
                'rule[jsonpickle.tags.OBJECT] = old':
                    ('set', [('rule', '(VDict (dset k_pyobject (VStr {old}) (dict_of {rule})))'),
                             ('doc', '(dset k_context (VDict (dset {key} {rule} (dict_of (match lookup k_context {doc} with '
                                     'Some r_ => r_ | None => VNone end)))) {doc})')]),
                "doc['rules'] = doc['context']":
                    ('setM', ('doc', '(bind (dget k_context {doc}) (fun r_ => Ok (dset k_rules r_ {doc})))')),
                "del doc['context']": ('set', [('doc', '(ddel k_context {doc})')]),
                "del doc['type']": ('set', [('doc', '(ddel k_type {doc})')]),
            },
            'exceptions': _EXC,
        },
        # ---------------- #4 down
        {
            'qualname': 'Migration1x2x0To1x4x0.down.process', 'name': 'down4_process', 'prefix': 'd4',
            'params': '(doc0 : mdoc)', 'returns': 'mdoc',
            'locals': [('doc', 'mdoc', 'doc0'), ('field', 'pstr', '[]')],
            'targets': {'field': ('field_', [('field', 'field_')])},
            'leaves': {
                '[self.storage.condition_field_compiled_name(x) for x in self.storage.condition_fields]':
                    ('pure', '(map compiled_name_g condition_fields_g)'),
                'field in doc': ('cond', '(has_key {field} {doc})'),
                'doc': ('pure', '{doc}'),
            },
            'stmts': {'del doc[field]': ('set', [('doc', '(ddel {field} {doc})')])},
            'exceptions': _EXC,
        },
        # ---------------- MongoStorage.__prepare_doc (what #4 up stores again for every policy)
        {
            'qualname': 'MongoStorage.__prepare_doc', 'name': 'prepare_doc_g', 'prefix': 'pd',
            'params': '(policy_json : mdoc) (policy_uid : val)', 'returns': 'mdoc',
            'locals': [('doc', 'mdoc', '[]'), ('field', 'pstr', '[]'), ('compiled_regexes', 'list val', '[]'),
                       ('el', 'val', 'VNone'), ('compiled', 'val', 'VNone')],
            'targets': {'field': ('field_', [('field', 'field_')]), 'el': ('el_', [('el', 'el_')])},
            'leaves': {
                'b_json.loads(policy.to_json())': ('pure', 'policy_json'),
                'policy.type == TYPE_STRING_BASED':
                    ('condM', '(bind (dget k_type {doc}) (fun t_ => Ok (py_eq t_ (VInt 1))))'),
                'self.condition_fields': ('pure', 'condition_fields_g'),
                '[]': ('pure', '[]'),
                'doc[field]': ('res', '(list_of (dget {field} {doc}))'),
                # Policy.start_tag / end_tag (pinned in the checker schema): '<' and '>'
                'policy.start_tag in el': ('condM', '(match {el} with VStr s_ => Ok (mem_N 60 s_) | _ => Raise EException end)'),
                'policy.end_tag in el': ('condM', '(match {el} with VStr s_ => Ok (mem_N 62 s_) | _ => Raise EException end)'),
                'compile_regex(el, policy.start_tag, policy.end_tag).pattern':
                    ('res', '(match {el} with VStr s_ => bind (compile_pattern s_ [60%N] [62%N]) (fun p_ => Ok (VStr p_)) '
                            '| _ => Raise EException end)'),
                'el': ('pure', '{el}'),
                'doc': ('pure', '{doc}'),
            },
            'stmts': {
                'compiled_regexes.append(compiled)': ('set', [('compiled_regexes', '({compiled_regexes} ++ [{compiled}])')]),
                'doc[self.condition_field_compiled_name(field)] = compiled_regexes':
                    ('set', [('doc', '(dset (compiled_name_g {field}) (VList {compiled_regexes}) {doc})')]),
                "doc['_id'] = policy.uid": ('set', [('doc', '(dset k_id policy_uid {doc})')]),
            },
            'exceptions': _EXC,
        },
    ],
}
