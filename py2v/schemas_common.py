"""Tables shared by the schema files."""

EXC = {
    'KeyError': 'EKeyError', 'TypeError': 'ETypeError', 'ValueError': 'EValueError',
    'InvalidPatternError': 'EInvalidPattern', 'PolicyExistsError': 'EPolicyExists',
    'PolicyCreationError': 'EPolicyCreation', 'Irreversible': 'EIrreversible',
    'UnknownCheckerType': 'EUnknownChecker',
}
